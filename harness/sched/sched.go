// Package sched is a deterministic cooperative scheduler for exploring the
// interleavings of small concurrent programs at the granularity of explicit
// schedule points (DESIGN.md §3.2, §4). It is generic: it knows nothing about
// the code under test. C18 (pkg/tmutex) and C19 (pkg/sleep) drive it through
// hook variables that the overlay instrumenter (cmd/instrument) adds to the
// package under test.
//
// # Model
//
// A program is a slice of bodies, one per test goroutine (gid = index). The
// bodies run on real goroutines, but only ONE of them runs at any moment: a
// body runs until it reaches a schedule point (Yield / BlockOn), parks there,
// and the scheduler picks which parked goroutine to resume next. One resume =
// one STEP: the code between the schedule point where the goroutine was parked
// and the next schedule point it reaches (or its end). All hand-offs go through
// channels, so the bodies may share plain variables without data races.
//
// A schedule point announces an enabledness predicate: Yield() is always
// enabled; BlockOn(ready) is enabled only while ready() returns true (ready is
// evaluated by the scheduler between steps, when no body runs). When some body
// is unfinished and none is enabled the execution is a DEADLOCK (for the
// primitives checked here: a lost wake-up) and Run returns it with the full
// step trace. Executions longer than Options.MaxSteps are PRUNED (reported as
// such, never as a failure: lock-free algorithms can spin under unfair
// schedules). In both cases the parked goroutines are terminated with
// runtime.Goexit from inside their schedule point, so nothing leaks.
//
// # Choices
//
// At every step the scheduler computes the enabled set and the canonical
// alternative list
//
//	alts = [def, other enabled gids in ascending order]
//
// where def is the goroutine that ran the previous step if it is still enabled
// (continuing it is "no pre-emption"), else the lowest enabled gid. A Chooser
// returns an index into alts. Result.Choices records those indexes (the
// canonical, replayable encoding of a schedule: all-zero = the non-pre-emptive
// schedule, so generated choice sequences shrink towards it), Result.Trace the
// chosen gids. A PRE-EMPTION is a step that switches away from a goroutine that
// is still enabled (choice index != 0 while the previous goroutine is enabled).
//
// # API
//
//	Run(bodies, opts, choose) Result        one execution under a Chooser
//	Replay(choices) Chooser                 follow a recorded/drawn choice list (index mod len(alts); 0 past its end)
//	Explore(cfg, mk, visit) Stats           stateless DFS (re-execution) over all schedules, optionally
//	                                        pre-emption-bounded, optionally below a fixed choice prefix (sharding)
//	Prefixes(cfg, depth, mk) [][]int        the distinct choice prefixes of a given depth (to split Explore over shards)
//	Yield(), BlockOn(ready), Gid(), Active() called from inside bodies / hooks; no-ops (BlockOn: returns at once)
//	                                        when no execution is active, so hooks may stay installed
//
// Only one execution can be active per process at a time (the hooks of the
// instrumented package are process-global anyway).
package sched

import (
	"fmt"
	"runtime"
	"strings"
)

// Point describes the schedule point a goroutine is parked at.
type point struct {
	ready func() bool // nil = always enabled
}

type event struct {
	gid   int
	done  bool
	panic any
	pt    point
}

type exec struct {
	evc     chan event
	resume  []chan struct{}
	cur     int
	aborted bool
}

var active *exec

// Active reports whether an execution is in progress (i.e. the caller runs
// inside a body started by Run).
func Active() bool { return active != nil }

// Gid returns the id of the running test goroutine, -1 outside an execution.
func Gid() int {
	if s := active; s != nil {
		return s.cur
	}
	return -1
}

// Yield is an always-enabled schedule point.
func Yield() { park(point{}) }

// BlockOn is a schedule point that is enabled only while ready() is true.
// ready is evaluated by the scheduler while no body runs; it must be a pure
// function of the shared state.
func BlockOn(ready func() bool) { park(point{ready: ready}) }

func park(pt point) {
	s := active
	if s == nil {
		return
	}
	g := s.cur
	s.evc <- event{gid: g, pt: pt}
	<-s.resume[g]
	if s.aborted {
		runtime.Goexit()
	}
}

// Options of one execution.
type Options struct {
	// MaxSteps caps the number of steps (0 = 10000). Longer executions are
	// pruned.
	MaxSteps int
	// EagerStart runs every body up to its first schedule point (in gid
	// order) before the first scheduled step, so that the purely local prologue
	// of a body is not a schedulable step of its own. Without it the first
	// step of a goroutine runs from its start to its first schedule point.
	EagerStart bool
}

// Result of one execution.
type Result struct {
	Trace       []int // chosen gid per step
	Choices     []int // index into the canonical alternative list per step
	Preemptions int
	Deadlock    bool  // no enabled goroutine while some are unfinished
	Blocked     []int // the unfinished goroutines at a deadlock
	Pruned      bool  // step cap reached, or the Chooser returned Abort
	Panic       any   // a body panicked (the execution was aborted)
	PanicGid    int
}

// Steps is the number of steps executed.
func (r *Result) Steps() int { return len(r.Trace) }

// TraceString renders the trace compactly ("0 0 1 1 0").
func (r *Result) TraceString() string {
	var b strings.Builder
	for i, g := range r.Trace {
		if i > 0 {
			b.WriteByte(' ')
		}
		fmt.Fprintf(&b, "%d", g)
	}
	return b.String()
}

// Abort, returned by a Chooser, ends the execution as pruned.
const Abort = -1

// Chooser picks the next goroutine: it gets the step number, the canonical
// alternative list (alts[0] is the default) and whether alts[0] is the
// goroutine that ran the previous step (so that any other index is a
// pre-emption). It returns an index into alts, or Abort.
type Chooser func(step int, alts []int, defIsCur bool) int

// Replay returns a Chooser that follows a choice list: entry i selects
// alts[choices[i] mod len(alts)]; past the end of the list it selects the
// default (non-pre-emptive continuation).
func Replay(choices []int) Chooser {
	return func(step int, alts []int, _ bool) int {
		if step < len(choices) {
			c := choices[step]
			if c < 0 {
				c = -c
			}
			return c % len(alts)
		}
		return 0
	}
}

// Run executes the program once under the given Chooser.
func Run(bodies []func(), opts Options, choose Chooser) (res Result) {
	if active != nil {
		panic("sched: nested or concurrent Run")
	}
	n := len(bodies)
	maxSteps := opts.MaxSteps
	if maxSteps <= 0 {
		maxSteps = 10000
	}
	s := &exec{evc: make(chan event), resume: make([]chan struct{}, n), cur: -1}
	active = s
	defer func() { active = nil }()

	type gstate struct {
		started, done bool
		pt            point
	}
	gs := make([]gstate, n)
	for i := range s.resume {
		s.resume[i] = make(chan struct{})
	}
	launch := func(i int) {
		go func() {
			defer func() {
				// runs on normal return, on Goexit (abort) and on panic
				r := recover()
				s.evc <- event{gid: i, done: true, panic: r}
			}()
			<-s.resume[i]
			if s.aborted {
				return
			}
			bodies[i]()
		}()
	}
	for i := 0; i < n; i++ {
		launch(i)
	}
	// step resumes g and waits until it parks again or finishes.
	step := func(g int) {
		s.cur = g
		gs[g].started = true
		s.resume[g] <- struct{}{}
		e := <-s.evc
		if e.done {
			gs[e.gid].done = true
			if e.panic != nil && res.Panic == nil {
				res.Panic, res.PanicGid = e.panic, e.gid
			}
		} else {
			gs[e.gid].pt = e.pt
		}
		s.cur = -1
	}
	abort := func() {
		s.aborted = true
		for i := range gs {
			for !gs[i].done {
				step(i)
			}
		}
	}
	if opts.EagerStart {
		for i := 0; i < n && res.Panic == nil; i++ {
			step(i)
		}
		if res.Panic != nil {
			abort()
			return res
		}
	}
	cur := -1
	alts := make([]int, 0, n)
	for stepNo := 0; ; stepNo++ {
		alts = alts[:0]
		live := 0
		curEnabled := false
		for i := range gs {
			if gs[i].done {
				continue
			}
			live++
			if gs[i].started && gs[i].pt.ready != nil && !gs[i].pt.ready() {
				continue
			}
			if i == cur {
				curEnabled = true
			}
			alts = append(alts, i)
		}
		if live == 0 {
			return res
		}
		if len(alts) == 0 {
			res.Deadlock = true
			for i := range gs {
				if !gs[i].done {
					res.Blocked = append(res.Blocked, i)
				}
			}
			abort()
			return res
		}
		if stepNo >= maxSteps {
			res.Pruned = true
			abort()
			return res
		}
		if curEnabled {
			// move cur to the front, keep the rest ascending
			for k := range alts {
				if alts[k] == cur {
					copy(alts[1:k+1], alts[:k])
					alts[0] = cur
					break
				}
			}
		}
		c := choose(stepNo, alts, curEnabled)
		if c == Abort {
			res.Pruned = true
			abort()
			return res
		}
		if c < 0 || c >= len(alts) {
			panic(fmt.Sprintf("sched: chooser returned %d for %d alternatives", c, len(alts)))
		}
		g := alts[c]
		if curEnabled && c != 0 {
			res.Preemptions++
		}
		res.Trace = append(res.Trace, g)
		res.Choices = append(res.Choices, c)
		step(g)
		if res.Panic != nil {
			abort()
			return res
		}
		cur = g
	}
}

// ExploreCfg configures a depth-first enumeration of schedules.
type ExploreCfg struct {
	Opts Options
	// MaxPreempt bounds the number of pre-emptions per schedule; < 0 = no
	// bound (complete enumeration).
	MaxPreempt int
	// Prefix fixes the first len(Prefix) choices (canonical indexes); only the
	// subtree below it is enumerated. Used for sharding together with Prefixes.
	Prefix []int
	// Limit stops after that many executions (0 = none); Stats.Truncated is
	// set when it was hit.
	Limit int64
}

// Stats of an exploration.
type Stats struct {
	Runs      int64
	Deadlocks int64
	Pruned    int64
	Steps     int64
	Truncated bool // Limit hit or visit returned false: the enumeration is incomplete
}

type frame struct {
	nalts int // number of admissible alternatives at this step
	idx   int // alternative taken
}

// Explore enumerates, by stateless re-execution, every schedule of the program
// (below cfg.Prefix) with at most cfg.MaxPreempt pre-emptions. mk must build a
// fresh instance of the program (fresh shared state) for every execution. visit
// is called after every execution; returning false stops the exploration.
//
// With a pre-emption budget exhausted, a step offers only the default
// alternative while the previous goroutine is enabled; when it is not enabled
// (blocked or finished) all enabled goroutines are offered (switching then is
// not a pre-emption).
func Explore(cfg ExploreCfg, mk func() []func(), visit func(*Result) bool) Stats {
	return explore(cfg, 0, mk, visit)
}

// Prefixes returns the distinct choice prefixes of exactly `depth` steps (and
// the complete choice lists of executions shorter than that) admissible under
// cfg; Explore over each of them as cfg.Prefix partitions the schedule space.
func Prefixes(cfg ExploreCfg, depth int, mk func() []func()) [][]int {
	var out [][]int
	explore(cfg, depth, mk, func(r *Result) bool {
		out = append(out, append([]int(nil), r.Choices...))
		return true
	})
	return out
}

func explore(cfg ExploreCfg, stopDepth int, mk func() []func(), visit func(*Result) bool) Stats {
	var st Stats
	var stack []frame
	npre := len(cfg.Prefix)
	for {
		pre := 0
		depth := 0
		mismatch := false
		res := Run(mk(), cfg.Opts, func(step int, alts []int, defIsCur bool) int {
			if stopDepth > 0 && step >= stopDepth {
				return Abort
			}
			if depth < npre {
				c := cfg.Prefix[depth]
				if c >= len(alts) {
					mismatch = true
					return Abort
				}
				if defIsCur && c != 0 {
					pre++
				}
				depth++
				return c
			}
			k := depth - npre
			if k < len(stack) {
				c := stack[k].idx
				if c >= len(alts) {
					mismatch = true
					return Abort
				}
				if defIsCur && c != 0 {
					pre++
				}
				depth++
				return c
			}
			nalts := len(alts)
			if defIsCur && cfg.MaxPreempt >= 0 && pre >= cfg.MaxPreempt {
				nalts = 1
			}
			stack = append(stack, frame{nalts: nalts})
			depth++
			return 0
		})
		if mismatch {
			panic("sched: program is not deterministic (recorded choice not available on re-execution)")
		}
		if stopDepth > 0 && res.Pruned && len(res.Choices) >= stopDepth {
			res.Pruned = false // cut by Prefixes, not by the step cap
		}
		st.Runs++
		st.Steps += int64(len(res.Trace))
		if res.Deadlock {
			st.Deadlocks++
		}
		if res.Pruned {
			st.Pruned++
		}
		cont := visit(&res)
		// backtrack
		if depth-npre < len(stack) {
			stack = stack[:max(depth-npre, 0)]
		}
		i := len(stack) - 1
		for ; i >= 0; i-- {
			if stack[i].idx+1 < stack[i].nalts {
				break
			}
		}
		if i < 0 {
			return st
		}
		if !cont || (cfg.Limit > 0 && st.Runs >= cfg.Limit) {
			st.Truncated = true
			return st
		}
		stack = stack[:i+1]
		stack[i].idx++
	}
}
