package c03

import (
	"fmt"
	"testing"
	"time"

	tcpip "github.com/brewlin/net-protocol/protocol"
	"github.com/brewlin/net-protocol/protocol/transport/tcp"
	"pgregory.net/rapid"
	"verifharness/codec"
	"verifharness/evid"
	"verifharness/netsim"
	"verifharness/rawpeer"
)

// AStep is one segment the scripted peer sends while the stack is actively
// opening a connection to it.
type AStep struct {
	Kind    string `json:"kind"`    // synack | syn | rst | rstack | ack
	AckMode int    `json:"ackmode"` // 0: iss+1, 1: iss, 2: iss+2, 3: iss+1+2^31, 4: iss+1+AckVal, 5: absolute
	AckVal  uint32 `json:"ackval"`
	Len     int    `json:"len"`
	// Stale: kinds without the ACK flag (syn, rst) carry the acknowledgement number anyway
	Stale bool `json:"stale,omitempty"`
}

type ActiveCase struct {
	V6       bool    `json:"v6"`
	PeerISS  uint32  `json:"peer_iss"`
	PlaceISS bool    `json:"place_iss"`
	StackISS uint32  `json:"stack_iss"`
	Steps    []AStep `json:"steps"`
	// After: once the open has ended (refused, or completed and then reset by
	// the peer) the application closes the socket and a late segment of the
	// former connection arrives: 1 ACK, 2 SYN-ACK, 3 SYN. No socket exists for
	// it any more, so it is answered by exactly one reset (a registration left
	// behind by the dead endpoint would swallow it).
	After int `json:"after,omitempty"`
}

func runActive(c ActiveCase) *evid.Failure {
	env := rawpeer.NewEnv(rawpeer.EnvCfg{V6: c.V6, MTU: 1500, SACK: true})
	defer env.Close()
	cs, serr := netsim.NewSock(env.Stack, tcp.ProtocolNumber, env.Net())
	if serr != nil {
		return evid.Failf("harness", "endpoint: %v", serr)
	}
	defer cs.EP.Close()
	type result struct {
		err *tcpip.Error
		ok  bool
		at  time.Time
	}
	done := make(chan result, 1)
	if c.PlaceISS {
		netsim.PlaceISSBegin(c.StackISS)
	}
	go func() {
		e, ok := cs.ConnectNotify(tcpip.FullAddress{Addr: env.PeerAddr(), Port: 80}, 4*time.Second, nil)
		done <- result{e, ok, time.Now()}
	}()
	syn, _, ok := env.Tap.Scan(0, 2*time.Second, func(f netsim.Frame) bool {
		return f.Pkt.L4Kind == "tcp" && f.Pkt.Flags&codec.SYN != 0 && f.Pkt.Flags&codec.ACK == 0
	})
	if c.PlaceISS {
		netsim.PlaceISSEnd()
	}
	if !ok {
		evid.Label("active:no-syn")
		return nil
	}
	iss := syn.Pkt.Seq
	port := syn.Pkt.SrcPort
	src, dst := []byte(env.PeerAddr()), []byte(env.StackAddr())
	var inj []sent
	peerSynSent := false
	for _, st := range c.Steps {
		seg := codec.TCPSeg{SrcPort: 80, DstPort: port, Wnd: 30000}
		ack := uint32(0)
		switch st.AckMode {
		case 0:
			ack = iss + 1
		case 1:
			ack = iss
		case 2:
			ack = iss + 2
		case 3:
			ack = iss + 1 + 1<<31
		case 4:
			ack = iss + 1 + st.AckVal
		default:
			ack = st.AckVal
		}
		switch st.Kind {
		case "synack":
			seg.Flags, seg.Seq, seg.Ack = codec.SYN|codec.ACK, c.PeerISS, ack
			seg.Opts = codec.OptMSS(1460)
		case "syn":
			seg.Flags, seg.Seq = codec.SYN, c.PeerISS
			seg.Opts = codec.OptMSS(1460)
			peerSynSent = true
			if st.Stale {
				seg.Ack = ack
				evid.Label("active:ack-field-set-without-ACK-flag")
			}
		case "rst":
			seg.Flags, seg.Seq = codec.RST, c.PeerISS+1
			if st.Stale {
				seg.Ack = ack
				evid.Label("active:ack-field-set-without-ACK-flag")
			}
		case "rstack":
			seg.Flags, seg.Seq, seg.Ack = codec.RST|codec.ACK, c.PeerISS+1, ack
		case "ack":
			seg.Flags, seg.Seq, seg.Ack = codec.ACK, c.PeerISS+1, ack
			if st.Len > 0 {
				seg.Payload = make([]byte, st.Len)
			}
		}
		l4 := codec.BuildTCP(src, dst, seg)
		at := time.Now()
		if c.V6 {
			env.Tap.Inject(0x86dd, codec.BuildIPv6(codec.IPv6Hdr{Src: src, Dst: dst, NextHeader: codec.ProtoTCP}, l4))
		} else {
			env.Tap.Inject(0x0800, codec.BuildIPv4(codec.IPv4Hdr{Src: src, Dst: dst, Proto: codec.ProtoTCP, ID: uint16(len(inj) + 1)}, l4))
		}
		inj = append(inj, sent{seg, at, st.Kind})
		time.Sleep(300 * time.Microsecond)
	}
	_ = peerSynSent
	// outcome
	var res *result
	select {
	case r := <-done:
		res = &r
	case <-time.After(evid.Pick(60*time.Millisecond, 200*time.Millisecond)):
	}
	// which injected segments could legitimately complete / refuse the open
	completes := func(s sent) bool {
		return s.seg.Flags&codec.ACK != 0 && s.seg.Flags&codec.RST == 0 && s.seg.Ack == iss+1
	}
	refuses := func(s sent) bool {
		return s.seg.Flags&codec.RST != 0
	}
	if res != nil && res.ok {
		if res.err == nil {
			okc := false
			for _, s := range inj {
				if completes(s) && s.at.Before(res.at) {
					okc = true
				}
			}
			if !okc {
				return evid.Failf("connect-without-valid-synack", "Connect completed although no segment acknowledged exactly iss+1=%d\n%s", iss+1, renderActive(iss, inj, env.Tap.Trace()))
			}
			evid.Label("active:completed")
		} else if res.err == tcpip.ErrConnectionRefused {
			okr := false
			for _, s := range inj {
				if refuses(s) {
					okr = true
				}
			}
			if !okr {
				return evid.Failf("refused-without-rst", "Connect failed with connection refused although no reset was sent\n%s", renderActive(iss, inj, env.Tap.Trace()))
			}
			evid.Label("active:refused")
		} else {
			evid.Label("active:error:" + res.err.String())
		}
	} else {
		evid.Label("active:pending")
	}
	// wrong-ack segments while the open is pending must draw RST seq=ack
	state := "synsent"
	type need struct {
		i        int
		seq, ack uint32
	}
	var needs []need
	for i, s := range inj {
		if state != "synsent" {
			break
		}
		switch {
		case s.seg.Flags&codec.RST != 0:
			if s.seg.Flags&codec.ACK != 0 && s.seg.Ack == iss+1 {
				state = "refused"
			}
		case s.seg.Flags&codec.ACK != 0 && s.seg.Ack != iss+1:
			needs = append(needs, need{i, s.seg.Ack, s.seg.Seq + seglen(s.seg)})
		case s.seg.Flags&codec.ACK != 0 && s.seg.Flags&codec.SYN != 0:
			state = "done"
		case s.seg.Flags == codec.SYN:
			state = "synrcvd" // simultaneous open: stop asserting (the peer's further segments meet another state)
		}
	}
	deadline := time.Now().Add(2 * time.Second)
	var frames []netsim.Frame
	for {
		frames = env.Tap.Trace()
		miss := -1
		used := map[int]bool{}
		for _, n := range needs {
			found := false
			for fi, f := range frames {
				if used[fi] || f.Pkt.L4Kind != "tcp" || f.Pkt.Flags&codec.RST == 0 {
					continue
				}
				if f.Pkt.Seq == n.seq && f.Pkt.Ack == n.ack {
					used[fi], found = true, true
					break
				}
			}
			if !found {
				miss = n.i
				break
			}
		}
		if miss < 0 {
			break
		}
		if time.Now().After(deadline) {
			return evid.Failf("active-missing-rst", "segment %d acknowledged %d while the active open (iss=%d) was pending but drew no reset with that sequence number\n%s", miss, inj[miss].seg.Ack, iss, renderActive(iss, inj, frames))
		}
		time.Sleep(2 * time.Millisecond)
	}
	// resets are never answered / invented
	for _, f := range frames {
		if f.Pkt.L4Kind != "tcp" || f.Pkt.Flags&codec.RST == 0 {
			continue
		}
		explained := false
		for _, s := range inj {
			if s.seg.Flags&codec.RST == 0 && f.T.After(s.at) && f.Pkt.Ack == s.seg.Seq+seglen(s.seg) {
				explained = true
			}
		}
		if !explained {
			return evid.Failf("rst-unexplained", "the stack emitted %s which does not acknowledge any non-RST segment sent to it\n%s", f.Pkt, renderActive(iss, inj, frames))
		}
	}
	if c.After > 0 && res != nil && res.ok && (res.err == nil || res.err == tcpip.ErrConnectionRefused) {
		inject := func(seg codec.TCPSeg) {
			l4 := codec.BuildTCP(src, dst, seg)
			if c.V6 {
				env.Tap.Inject(0x86dd, codec.BuildIPv6(codec.IPv6Hdr{Src: src, Dst: dst, NextHeader: codec.ProtoTCP}, l4))
			} else {
				env.Tap.Inject(0x0800, codec.BuildIPv4(codec.IPv4Hdr{Src: src, Dst: dst, Proto: codec.ProtoTCP, ID: 999}, l4))
			}
		}
		how := "refused"
		if res.err == nil {
			// reset the established connection exactly at the sequence number it expects
			how = "established and reset by the peer"
			rcvNxt := c.PeerISS + 1
			for _, f := range env.Tap.Trace() {
				if f.Pkt.L4Kind == "tcp" && f.Pkt.Flags&codec.ACK != 0 && f.Pkt.Flags&codec.RST == 0 {
					rcvNxt = f.Pkt.Ack
				}
			}
			inject(codec.TCPSeg{SrcPort: 80, DstPort: port, Flags: codec.RST, Seq: rcvNxt, Wnd: 0})
			time.Sleep(5 * time.Millisecond)
		}
		cs.EP.Close()
		time.Sleep(10 * time.Millisecond)
		env.Tap.Quiesce(2*time.Millisecond, 100*time.Millisecond)
		stray := codec.TCPSeg{SrcPort: 80, DstPort: port, Wnd: 30000, Seq: c.PeerISS + 77}
		wantSeq, wantAck, wantFl := uint32(0), uint32(0), uint8(codec.RST)
		switch c.After {
		case 1:
			stray.Flags, stray.Ack = codec.ACK, iss+40
			wantSeq = stray.Ack
		case 2:
			stray.Flags, stray.Ack = codec.SYN|codec.ACK, iss+1
			wantSeq = stray.Ack
		default:
			stray.Flags = codec.SYN
			wantAck, wantFl = stray.Seq+1, codec.RST|codec.ACK
		}
		from := env.Tap.Len()
		inject(stray)
		match := func(f netsim.Frame) bool {
			k := f.Pkt
			return k.L4Kind == "tcp" && k.SrcPort == port && k.DstPort == 80 && k.Flags&codec.RST != 0
		}
		_, _, got := env.Tap.Scan(from, 1500*time.Millisecond, match)
		if !got {
			return evid.Failf("stray-after-close-no-reset", "the open (%s) is over and the socket closed, so no socket exists for port %d any more, but a late %s of the former connection drew no reset within 1.5 s\n%s", how, port, codec.FlagString(stray.Flags), renderActive(iss, inj, env.Tap.Trace()))
		}
		time.Sleep(10 * time.Millisecond)
		n := 0
		var last *codec.Packet
		for _, f := range env.Tap.Trace()[from:] {
			if match(f) {
				n++
				last = f.Pkt
			}
		}
		if n != 1 {
			return evid.Failf("stray-after-close-resets", "a late %s for a closed socket drew %d resets, want exactly one", codec.FlagString(stray.Flags), n)
		}
		if last.Seq != wantSeq || (wantFl&codec.ACK != 0 && (last.Flags&codec.ACK == 0 || last.Ack != wantAck)) {
			return evid.Failf("stray-after-close-reset-numbers", "a late %s (seq=%d ack=%d) for a closed socket drew %s, want seq=%d ack=%d", codec.FlagString(stray.Flags), stray.Seq, stray.Ack, last, wantSeq, wantAck)
		}
		evid.Label("active:stray-after-close:" + how)
	}
	if len(needs) > 0 || len(inj) > 1 {
		evid.NonTrivialKey("active", fmt.Sprintf("%+v", c))
		evid.Sample("active", c)
	}
	if c.PlaceISS && iss == c.StackISS {
		evid.Label("active:iss-placed")
	}
	evid.LabelN("active:required-resets", int64(len(needs)))
	return nil
}

type sent struct {
	seg  codec.TCPSeg
	at   time.Time
	kind string
}

func renderActive(iss uint32, inj []sent, frames []netsim.Frame) string {
	s := fmt.Sprintf("  stack iss=%d\n", iss)
	for i, x := range inj {
		s += fmt.Sprintf("  -> %d %s %s seq=%d ack=%d len=%d\n", i, x.kind, codec.FlagString(x.seg.Flags), x.seg.Seq, x.seg.Ack, len(x.seg.Payload))
	}
	for _, f := range frames {
		s += "  <- " + f.Pkt.String() + "\n"
	}
	return s
}

func genActive(rt *rapid.T) ActiveCase {
	var c ActiveCase
	c.V6 = rapid.Bool().Draw(rt, "v6")
	c.PeerISS = rapid.OneOf(rapid.SampledFrom(irsPool), rapid.Uint32()).Draw(rt, "peer_iss")
	if rapid.Bool().Draw(rt, "place") {
		c.PlaceISS = true
		c.StackISS = rapid.SampledFrom(irsPool).Draw(rt, "stack_iss")
	}
	n := rapid.IntRange(1, 6).Draw(rt, "nsteps")
	syns := 0
	for i := 0; i < n; i++ {
		var st AStep
		st.Kind = rapid.SampledFrom([]string{"synack", "synack", "synack", "syn", "rst", "rstack", "ack"}).Draw(rt, "kind")
		if st.Kind == "syn" {
			syns++
			if syns > 1 {
				st.Kind = "ack"
			}
		}
		st.AckMode = rapid.SampledFrom([]int{0, 0, 1, 2, 3, 4, 5}).Draw(rt, "ackmode")
		st.AckVal = rapid.OneOf(rapid.Uint32Range(1, 5), rapid.Uint32()).Draw(rt, "ackval")
		if st.Kind == "ack" {
			st.Len = rapid.SampledFrom([]int{0, 0, 5}).Draw(rt, "len")
		}
		if st.Kind == "syn" || st.Kind == "rst" {
			st.Stale = rapid.Bool().Draw(rt, "stale")
		}
		c.Steps = append(c.Steps, st)
	}
	c.After = rapid.SampledFrom([]int{0, 1, 2, 3}).Draw(rt, "after")
	return c
}

// the stray-after-close verdict waits for a reset with a deadline: confirmed by a second run
func runActiveConfirmed(c ActiveCase) *evid.Failure {
	f := runActive(c)
	if f == nil || f.Sig != "stray-after-close-no-reset" {
		return f
	}
	if f2 := runActive(c); f2 != nil {
		return f2
	}
	evid.Label("active:stray-verdict-not-confirmed")
	evid.Unconfirmed()
	return nil
}

func TestActive(t *testing.T) {
	evid.Run(t, evid.Spec[ActiveCase]{Name: "active", Gen: genActive, Run: runActiveConfirmed})
}
