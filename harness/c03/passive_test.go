// Package c03 decides property C03: connections exist only after a correct
// three-way handshake; handshake segments acknowledging anything else create no
// connection and draw a reset carrying that acknowledgement number (cookie mode
// may drop them silently); segments for which no socket exists draw exactly one
// reset that acknowledges them; resets are never answered.
package c03

import (
	"fmt"
	"os"
	"strings"
	"testing"
	"time"

	tcpip "github.com/brewlin/net-protocol/protocol"
	"github.com/brewlin/net-protocol/protocol/transport/tcp"
	"pgregory.net/rapid"
	"verifharness/codec"
	"verifharness/evid"
	"verifharness/netsim"
	"verifharness/rawpeer"
)

const (
	listenPort = 80
	closedPort = 81
)

// Step is one scripted segment.
type Step struct {
	Peer    int    `json:"peer"`    // index of the peer port (5000+Peer)
	Closed  bool   `json:"closed"`  // aimed at the port without socket
	Flags   uint8  `json:"flags"`   // TCP flags
	SeqMode int    `json:"seqmode"` // 0: irs, 1: irs+1, 2: irs+1+SeqVal, 3: absolute SeqVal
	SeqVal  uint32 `json:"seqval"`
	AckMode int    `json:"ackmode"` // 0: iss+1, 1: iss, 2: iss+2, 3: iss+1+2^31, 4: iss+1+AckVal, 5: absolute AckVal
	AckVal  uint32 `json:"ackval"`
	// StaleAck: the segment does not carry the ACK flag but its acknowledgement field holds
	// AckVal anyway (the field is meaningless without the flag, RFC 793 3.1, and must be ignored)
	StaleAck bool   `json:"staleack,omitempty"`
	Len      int    `json:"len"`
	Opts     []byte `json:"opts"`  // raw SYN options (nil = MSS 1460)
	TSFix    bool   `json:"tsfix"` // on non-SYN segments: carry a timestamp option if the SYN-ACK negotiated it
	// Twice: the segment arrives twice back to back (a duplicate made by the network): the second
	// copy is injected before the stack had any time to act on the first
	Twice  bool `json:"twice,omitempty"`
	nowait bool // first copy of a Twice step
	repeat bool // second copy of a Twice step: the very segment of the first copy once more
}

type Script struct {
	V6    bool     `json:"v6"`
	IRS   []uint32 `json:"irs"` // initial sequence number per peer
	Steps []Step   `json:"steps"`
}

type injected struct {
	step     Step
	seg      codec.TCPSeg
	at       time.Time
	tuple    int  // peer index*2 + closed
	cleanHS  bool // injected while a handshake for its tuple was cleanly in progress (normal mode)
	issAtInj uint32
}

type tupleState struct {
	irs     uint32
	haveISS bool
	iss     uint32 // latest SYN-ACK sequence number seen from the stack
	issAll  []issSeen
	clean   bool // a handshake is in progress and nothing disturbed it yet
	synTS   bool
	tsEcr   uint32
}

type issSeen struct {
	iss    uint32
	at     time.Time
	ackSyn uint32 // the SYN-ACK's acknowledgement number (the SYN's sequence number + 1)
}

func cookieMode() bool { return os.Getenv("C03_COOKIE") == "1" }

func runPassive(sc Script) *evid.Failure {
	if cookieMode() {
		tcp.SynRcvdCountThreshold = 0
	}
	env := rawpeer.NewEnv(rawpeer.EnvCfg{V6: sc.V6, MTU: 1500, SACK: true})
	defer env.Close()
	l, err := env.Listen(listenPort, 64)
	if err != nil {
		return evid.Failf("harness", "listen: %v", err)
	}
	defer l.EP.Close()
	tap := env.Tap
	src, dst := []byte(env.PeerAddr()), []byte(env.StackAddr())
	ts := map[int]*tupleState{}
	get := func(peer int, closed bool) (*tupleState, int) {
		k := peer * 2
		if closed {
			k++
		}
		if ts[k] == nil {
			ts[k] = &tupleState{irs: sc.IRS[peer%len(sc.IRS)]}
		}
		return ts[k], k
	}
	var inj []injected
	mine := func(k int) func(netsim.Frame) bool {
		pp := uint16(5000 + k/2)
		sp := uint16(listenPort)
		if k%2 == 1 {
			sp = closedPort
		}
		return func(f netsim.Frame) bool {
			return f.Pkt.L4Kind == "tcp" && f.Pkt.DstPort == pp && f.Pkt.SrcPort == sp
		}
	}
	send := func(seg codec.TCPSeg) {
		l4 := codec.BuildTCP(src, dst, seg)
		if sc.V6 {
			tap.Inject(0x86dd, codec.BuildIPv6(codec.IPv6Hdr{Src: src, Dst: dst, NextHeader: codec.ProtoTCP}, l4))
		} else {
			tap.Inject(0x0800, codec.BuildIPv4(codec.IPv4Hdr{Src: src, Dst: dst, Proto: codec.ProtoTCP, ID: uint16(len(inj))}, l4))
		}
	}
	var steps []Step
	for _, st := range sc.Steps {
		if st.Twice {
			first := st
			first.nowait = true
			steps = append(steps, first)
			evid.Label("step:arrives-twice-back-to-back")
			st.repeat = true
		}
		steps = append(steps, st)
	}
	var lastSeg codec.TCPSeg
	for _, st := range steps {
		t, k := get(st.Peer, st.Closed)
		seg := codec.TCPSeg{SrcPort: uint16(5000 + st.Peer), DstPort: listenPort, Flags: st.Flags, Wnd: 30000}
		if st.Closed {
			seg.DstPort = closedPort
		}
		switch st.SeqMode {
		case 0:
			seg.Seq = t.irs
		case 1:
			seg.Seq = t.irs + 1
		case 2:
			seg.Seq = t.irs + 1 + st.SeqVal
		default:
			seg.Seq = st.SeqVal
		}
		if st.Flags&codec.ACK != 0 {
			switch st.AckMode {
			case 0:
				seg.Ack = t.iss + 1
			case 1:
				seg.Ack = t.iss
			case 2:
				seg.Ack = t.iss + 2
			case 3:
				seg.Ack = t.iss + 1 + 1<<31
			case 4:
				seg.Ack = t.iss + 1 + st.AckVal
			default:
				seg.Ack = st.AckVal
			}
		} else if st.StaleAck {
			evid.Label("step:ack-field-set-without-ACK-flag")
			seg.Ack = st.AckVal
			if st.AckMode == 0 {
				seg.Ack = t.iss + 1 // the value that would be right if the flag were set
			}
		}
		if st.Len > 0 {
			seg.Payload = make([]byte, st.Len)
		}
		if st.repeat {
			// byte for byte the segment of the first copy (sequence numbers derived from the
			// handshake state must not follow what the first copy did to that state)
			seg = lastSeg
		}
		lastSeg = seg
		isSyn := st.Flags&codec.SYN != 0
		oldIRS := t.irs
		if isSyn {
			seg.Opts = st.Opts
			if seg.Opts == nil {
				seg.Opts = codec.OptMSS(1460)
			}
			if st.Flags == codec.SYN {
				t.irs = seg.Seq
			}
		} else if st.TSFix && t.synTS && st.Flags&codec.RST == 0 {
			seg.Opts = append(append(codec.OptNOP(), codec.OptNOP()...), codec.OptTS(7, t.tsEcr)...)
		}
		rec := injected{step: st, seg: seg, tuple: k, cleanHS: t.clean && !st.Closed, issAtInj: t.iss}
		// what this segment does to a handshake in progress (normal mode)
		if !st.Closed && t.clean {
			switch {
			case st.Flags&codec.RST != 0:
				t.clean = false // may abort the half-open endpoint
			case st.Flags&codec.ACK != 0 && seg.Ack == t.iss+1:
				t.clean = false // completes (or is dropped for lack of a timestamp): not "in progress" any more
			case isSyn && seg.Seq != oldIRS:
				t.clean = false
			case isSyn && st.Flags&codec.ACK == 0 && st.Flags != codec.SYN:
				t.clean = false
			}
		}
		n0 := tap.Len()
		rec.at = time.Now()
		send(seg)
		inj = append(inj, rec)
		if st.nowait {
			continue
		}
		if st.Flags == codec.SYN && !st.Closed {
			// learn the stack's ISS for this tuple from the SYN-ACK
			wait := 500 * time.Millisecond
			if t.haveISS && seg.Seq == oldIRS && t.clean {
				wait = 3 * time.Millisecond // a retransmitted SYN need not be answered at once
			}
			f, _, ok := tap.Scan(n0, wait, func(f netsim.Frame) bool {
				return mine(k)(f) && f.Pkt.Flags&(codec.SYN|codec.ACK) == codec.SYN|codec.ACK && f.Pkt.Ack == seg.Seq+1
			})
			if ok {
				if !t.haveISS || t.iss != f.Pkt.Seq {
					t.issAll = append(t.issAll, issSeen{f.Pkt.Seq, f.T, f.Pkt.Ack})
				}
				wasFresh := !t.haveISS || !t.clean
				t.iss, t.haveISS = f.Pkt.Seq, true
				if d, ok := f.Pkt.Opt(8); ok && len(d) == 8 {
					t.synTS = true
					t.tsEcr = uint32(d[0])<<24 | uint32(d[1])<<16 | uint32(d[2])<<8 | uint32(d[3])
				} else {
					t.synTS = false
				}
				if wasFresh && !cookieMode() {
					t.clean = true
				}
			} else {
				evid.Label("syn-without-synack")
			}
		} else {
			time.Sleep(200 * time.Microsecond)
		}
	}
	// ---- evaluate
	// required resets (normal mode, clean handshake in progress, ACK set, wrong ack)
	type need struct {
		i        int
		seq, ack uint32
	}
	var needs []need
	for i, r := range inj {
		if r.cleanHS && r.step.Flags&codec.ACK != 0 && r.step.Flags&codec.RST == 0 && r.seg.Ack != r.issAtInj+1 {
			needs = append(needs, need{i, r.seg.Ack, r.seg.Seq + seglen(r.seg)})
		}
	}
	deadline := time.Now().Add(2 * time.Second)
	settle := time.Now().Add(evid.Pick(40*time.Millisecond, 150*time.Millisecond))
	var frames []netsim.Frame
	for {
		frames = tap.Trace()
		missing := 0
		used := map[int]bool{}
		for _, n := range needs {
			found := false
			for fi, f := range frames {
				if used[fi] || !mine(inj[n.i].tuple)(f) || f.Pkt.Flags&codec.RST == 0 || !f.T.After(inj[n.i].at) {
					continue
				}
				if f.Pkt.Seq == n.seq && f.Pkt.Ack == n.ack {
					used[fi], found = true, true
					break
				}
			}
			if !found {
				missing++
			}
		}
		if (missing == 0 && time.Now().After(settle)) || time.Now().After(deadline) {
			if missing > 0 {
				for _, n := range needs {
					found := false
					for _, f := range frames {
						if mine(inj[n.i].tuple)(f) && f.Pkt.Flags&codec.RST != 0 && f.Pkt.Seq == n.seq && f.Pkt.Ack == n.ack && f.T.After(inj[n.i].at) {
							found = true
						}
					}
					if !found {
						return evid.Failf("missing-rst", "step %d (%s seq=%d ack=%d len=%d) acknowledged %d during a handshake whose SYN-ACK carried seq %d, but no reset with seq=%d ack=%d followed\n%s",
							n.i, codec.FlagString(inj[n.i].step.Flags), inj[n.i].seg.Seq, inj[n.i].seg.Ack, inj[n.i].step.Len, inj[n.i].seg.Ack, inj[n.i].issAtInj, n.seq, n.ack, render(inj, frames))
					}
				}
			}
			break
		}
		time.Sleep(2 * time.Millisecond)
	}
	// strays and "resets are never answered"
	for k := range ts {
		var fs []netsim.Frame
		for _, f := range frames {
			if mine(k)(f) {
				fs = append(fs, f)
			}
		}
		if k%2 == 1 {
			// no socket: exactly one matching reset per non-RST segment, nothing per RST, nothing else
			var want []need
			for i, r := range inj {
				if r.tuple == k && r.step.Flags&codec.RST == 0 {
					s := uint32(0)
					if r.step.Flags&codec.ACK != 0 {
						s = r.seg.Ack
					}
					want = append(want, need{i, s, r.seg.Seq + seglen(r.seg)})
				}
			}
			if len(fs) != len(want) {
				return evid.Failf("stray-count", "port without socket: %d non-RST segments were injected for peer port %d but %d replies were emitted\n%s", len(want), 5000+k/2, len(fs), render(inj, frames))
			}
			for i, f := range fs { // replies are generated synchronously, in order
				w := want[i]
				if f.Pkt.Flags != codec.RST|codec.ACK || f.Pkt.Seq != w.seq || f.Pkt.Ack != w.ack || len(f.Pkt.Payload) != 0 {
					return evid.Failf("stray-fields", "port without socket: step %d (%s seq=%d ack=%d len=%d) must draw RST|ACK seq=%d ack=%d, got %s\n%s", w.i, codec.FlagString(inj[w.i].step.Flags), inj[w.i].seg.Seq, inj[w.i].seg.Ack, inj[w.i].step.Len, w.seq, w.ack, f.Pkt, render(inj, frames))
				}
			}
			continue
		}
		for _, f := range fs {
			if f.Pkt.Flags&(codec.SYN|codec.ACK) == codec.SYN|codec.ACK && f.Pkt.Flags&codec.RST == 0 {
				// a SYN-ACK answers a connection request: a segment with SYN, without RST ("a reset is never answered")
				explained := false
				for _, r := range inj {
					if r.tuple == k && r.step.Flags&codec.SYN != 0 && r.step.Flags&codec.RST == 0 && f.T.After(r.at) && f.Pkt.Ack == r.seg.Seq+1 {
						explained = true
					}
				}
				if !explained {
					return evid.Failf("synack-unexplained", "the stack emitted %s although no SYN without RST with that sequence number was sent to it (a reset-bearing segment was answered, or a SYN-ACK was invented)\n%s", f.Pkt, render(inj, frames))
				}
			}
			if f.Pkt.Flags&codec.RST == 0 {
				continue
			}
			explained := false
			for _, r := range inj {
				if r.tuple != k || r.step.Flags&codec.RST != 0 || !f.T.After(r.at) {
					continue
				}
				if f.Pkt.Ack == r.seg.Seq+seglen(r.seg) {
					explained = true
				}
			}
			if !explained {
				return evid.Failf("rst-unexplained", "the stack emitted %s which does not acknowledge any non-RST segment sent to it (a reset was answered, or a reset was invented)\n%s", f.Pkt, render(inj, frames))
			}
		}
	}
	// accepted connections
	accepted := map[uint16]int{}
	dead := 0
	for {
		ep, _, aerr := l.EP.Accept()
		if aerr != nil {
			break
		}
		defer ep.Close()
		ra, rerr := ep.GetRemoteAddress()
		if rerr != nil {
			// the connection was reset between its handshake and this Accept: the endpoint no longer tells its peer
			dead++
			continue
		}
		accepted[ra.Port]++
	}
	justified := func(k int) (bool, []string) {
		t := ts[k]
		ok := false
		var offs []string
		for _, r := range inj {
			if r.tuple != k || r.step.Flags&codec.ACK == 0 || r.step.Flags&codec.RST != 0 {
				continue
			}
			for _, s := range t.issAll {
				if s.at.Before(r.at) {
					if r.seg.Ack == s.iss+1 {
						ok = true
					}
					// offset of the acknowledgement, and that offset minus the offset of the
					// segment's own sequence number (the cookie is linear in the latter)
					offs = append(offs, fmt.Sprintf("%d/%d", int32(r.seg.Ack-(s.iss+1)), int32((r.seg.Ack-(s.iss+1))-(r.seg.Seq-s.ackSyn))))
				}
			}
		}
		return ok, offs
	}
	for ; dead > 0; dead-- {
		// attribute it to a 4-tuple that completed a valid handshake, was sent a reset afterwards and is not accounted for
		found := false
		for k, t := range ts {
			if k%2 == 1 || t == nil || accepted[uint16(5000+k/2)] != 0 {
				continue
			}
			rst := false
			for _, r := range inj {
				if r.tuple == k && r.step.Flags&codec.RST != 0 {
					rst = true
				}
			}
			if ok, _ := justified(k); ok && rst {
				accepted[uint16(5000+k/2)]++
				evid.Label("accepted-connection-already-reset")
				found = true
				break
			}
		}
		if !found {
			return evid.Failf("accept-without-valid-ack:dead", "Accept returned a connection that had already been reset, and no 4-tuple with a valid handshake followed by a reset is unaccounted for\n%s", render(inj, frames))
		}
	}
	nontrivial := len(needs) > 0
	for port, n := range accepted {
		k := int(port-5000) * 2
		t := ts[k]
		if t == nil {
			return evid.Failf("accept-unknown", "Accept returned a connection from port %d to which no segment was sent", port)
		}
		if n > 1 {
			return evid.Failf("accept-twice", "Accept returned %d connections for one 4-tuple (peer port %d)\n%s", n, port, render(inj, frames))
		}
		// justified iff some injected ACK-bearing segment acknowledged s+1 for a SYN-ACK sequence s the stack had sent before
		ok, offs := justified(k)
		if !ok {
			sig := "accept-without-valid-ack"
			{
				// Finding F11: the listener validates bare ACKs as SYN cookies (in
				// normal mode too, once no half-open endpoint exists for the
				// 4-tuple) and the cookie's MSS bits are not authenticated.
				// The cookie is H0 + seq + ts<<24 + ((H1+mss) & 0xffffff) and validation
				// looks at cookie-seq only: an ACK whose acknowledgement number AND
				// sequence number are shifted by the same amount validates as well, give
				// or take the 3 values of the MSS bits.
				for _, o := range offs {
					var d, rel int32
					fmt.Sscanf(o, "%d/%d", &d, &rel)
					for _, kk := range []int32{0, 1 << 24, 2 << 24} {
						if (d+kk >= -3 && d+kk <= 3 && d+kk != 0) || (d != 0 && rel+kk >= -3 && rel+kk <= 3) {
							sig = "accept-without-valid-ack:cookie-mss-bits"
						}
					}
				}
			}
			return evid.Failf(sig, "Accept returned a connection for peer port %d although no segment acknowledged exactly iss+1 (offsets of the ACKs sent relative to iss+1 / the same minus the offset of the segment's sequence number: %v)\n%s", port, offs, render(inj, frames))
		}
		nontrivial = true
	}
	// positive direction for the canonical handshake: SYN, then ACK(seq=irs+1, ack=iss+1, timestamp if negotiated) and nothing else for that peer
	for k, t := range ts {
		if k%2 == 1 || !t.haveISS {
			continue
		}
		var mineInj []injected
		for _, r := range inj {
			if r.tuple == k {
				mineInj = append(mineInj, r)
			}
		}
		if len(mineInj) == 2 && mineInj[0].step.Flags == codec.SYN && mineInj[1].step.Flags == codec.ACK && mineInj[1].seg.Ack == t.iss+1 && mineInj[1].seg.Seq == t.irs+1 && mineInj[1].step.Len == 0 && (mineInj[1].step.TSFix || !t.synTS) && len(t.issAll) == 1 {
			evid.Label("canonical-handshake")
			if accepted[uint16(5000+k/2)] != 1 {
				// Accept may lag: wait for it
				got := false
				dl := time.Now().Add(2 * time.Second)
				for time.Now().Before(dl) && !got {
					if ep, _, aerr := l.EP.Accept(); aerr == nil {
						ra, _ := ep.GetRemoteAddress()
						ep.Close()
						if ra.Port == uint16(5000+k/2) {
							got = true
						}
					} else {
						time.Sleep(2 * time.Millisecond)
					}
				}
				if !got {
					return evid.Failf("valid-handshake-refused", "SYN followed by the exact final ACK for peer port %d produced no connection\n%s", 5000+k/2, render(inj, frames))
				}
			}
		}
	}
	for _, r := range inj {
		if r.tuple%2 == 1 {
			nontrivial = true
		}
	}
	if nontrivial {
		evid.NonTrivialKey(cookieMode(), fmt.Sprintf("%+v", sc))
		evid.Sample(map[bool]string{false: "passive-normal", true: "passive-cookie"}[cookieMode()], sc)
	}
	evid.LabelN("required-resets", int64(len(needs)))
	evid.LabelN("accepted-connections", int64(len(accepted)))
	return nil
}

func seglen(s codec.TCPSeg) uint32 {
	n := uint32(len(s.Payload))
	if s.Flags&codec.SYN != 0 {
		n++
	}
	if s.Flags&codec.FIN != 0 {
		n++
	}
	return n
}

func render(inj []injected, frames []netsim.Frame) string {
	var b strings.Builder
	var t0 time.Time
	if len(inj) > 0 {
		t0 = inj[0].at
	}
	type ev struct {
		at time.Time
		s  string
	}
	var evs []ev
	for i, r := range inj {
		evs = append(evs, ev{r.at, fmt.Sprintf("-> step %d port %d>%d %s seq=%d ack=%d len=%d", i, r.seg.SrcPort, r.seg.DstPort, codec.FlagString(r.seg.Flags), r.seg.Seq, r.seg.Ack, len(r.seg.Payload))})
	}
	for _, f := range frames {
		evs = append(evs, ev{f.T, "<- " + f.Pkt.String()})
	}
	for i := range evs {
		for j := i + 1; j < len(evs); j++ {
			if evs[j].at.Before(evs[i].at) {
				evs[i], evs[j] = evs[j], evs[i]
			}
		}
	}
	for _, e := range evs {
		fmt.Fprintf(&b, "  +%8.2fms %s\n", float64(e.at.Sub(t0).Microseconds())/1000, e.s)
	}
	return b.String()
}

var irsPool = []uint32{0, 1, 1<<31 - 2, 1<<31 - 1, 1 << 31, 1<<31 + 1, 1<<32 - 2, 1<<32 - 1}

func genSynOpts(rt *rapid.T) []byte {
	switch rapid.IntRange(0, 5).Draw(rt, "optkind") {
	case 0:
		return nil
	case 1:
		return []byte{}
	}
	var b []byte
	n := rapid.IntRange(1, 5).Draw(rt, "nopts")
	for i := 0; i < n && len(b) < 36; i++ {
		switch rapid.IntRange(0, 7).Draw(rt, "opt") {
		case 0:
			b = append(b, codec.OptMSS(rapid.Uint16().Draw(rt, "mss"))...)
		case 1:
			b = append(b, codec.OptWS(rapid.Uint8().Draw(rt, "ws"))...)
		case 2:
			b = append(b, codec.OptTS(rapid.Uint32().Draw(rt, "tsval"), 0)...)
		case 3:
			b = append(b, codec.OptSACKPerm()...)
		case 4:
			b = append(b, 1)
		case 5:
			b = append(b, 0)
		case 6: // unknown kind with length
			l := rapid.IntRange(2, 6).Draw(rt, "ulen")
			b = append(b, byte(rapid.IntRange(9, 254).Draw(rt, "ukind")), byte(l))
			b = append(b, make([]byte, l-2)...)
		case 7: // truncated / lying length
			b = append(b, byte(rapid.SampledFrom([]int{2, 3, 8, 5, 77}).Draw(rt, "tkind")), byte(rapid.SampledFrom([]int{0, 1, 40, 255}).Draw(rt, "tlen")))
		}
	}
	if len(b) > 40 {
		b = b[:40]
	}
	return b
}

func genPassive(rt *rapid.T) Script {
	var sc Script
	sc.V6 = rapid.Bool().Draw(rt, "v6")
	for i := 0; i < 3; i++ {
		sc.IRS = append(sc.IRS, rapid.OneOf(rapid.SampledFrom(irsPool), rapid.Uint32()).Draw(rt, "irs"))
	}
	n := rapid.IntRange(1, 12).Draw(rt, "nsteps")
	for i := 0; i < n; i++ {
		var st Step
		st.Peer = rapid.IntRange(0, 2).Draw(rt, "peer")
		st.Closed = rapid.IntRange(0, 3).Draw(rt, "closed") == 0
		if i > 0 && rapid.IntRange(0, 9).Draw(rt, "stick") < 6 {
			// stay on the previous 4-tuple so that handshakes get follow-up segments
			st.Peer, st.Closed = sc.Steps[i-1].Peer, sc.Steps[i-1].Closed
		}
		kind := rapid.SampledFrom([]string{"syn", "syn", "ack", "ack", "ack", "ackbad", "ackbad", "ackbad", "rst", "rstack", "rstsyn", "fin", "finack", "synack", "data", "odd"}).Draw(rt, "kind")
		st.SeqMode = rapid.SampledFrom([]int{1, 1, 1, 0, 2, 3}).Draw(rt, "seqmode")
		st.SeqVal = rapid.OneOf(rapid.Uint32Range(0, 70000), rapid.Uint32()).Draw(rt, "seqval")
		st.TSFix = rapid.IntRange(0, 4).Draw(rt, "tsfix") != 0
		switch kind {
		case "syn":
			st.Flags = codec.SYN
			st.SeqMode = rapid.SampledFrom([]int{0, 0, 0, 2, 3}).Draw(rt, "synseq")
			st.Opts = genSynOpts(rt)
		case "ack":
			st.Flags = codec.ACK
			st.AckMode = 0
		case "ackbad":
			st.Flags = codec.ACK
			st.AckMode = rapid.IntRange(1, 5).Draw(rt, "ackmode")
			st.AckVal = rapid.OneOf(rapid.Uint32Range(1, 5), rapid.Uint32Range(1<<24-2, 1<<24+4), rapid.Uint32()).Draw(rt, "ackval")
		case "rst":
			st.Flags = codec.RST
		case "rstsyn":
			// a reset that also carries SYN (and possibly more): must be treated as a reset
			st.Flags = codec.RST | codec.SYN | uint8(rapid.SampledFrom([]int{0, 0, codec.FIN, codec.PSH, codec.URG}).Draw(rt, "rstsyn_extra"))
			st.SeqMode = rapid.SampledFrom([]int{0, 0, 2, 3}).Draw(rt, "rstsyn_seq")
		case "rstack":
			st.Flags = codec.RST | codec.ACK
			st.AckMode = rapid.IntRange(0, 5).Draw(rt, "ackmode")
			st.AckVal = rapid.Uint32().Draw(rt, "ackval")
		case "fin":
			st.Flags = codec.FIN
		case "finack":
			st.Flags = codec.FIN | codec.ACK
			st.AckMode = rapid.IntRange(0, 5).Draw(rt, "ackmode")
			st.AckVal = rapid.Uint32().Draw(rt, "ackval")
		case "synack":
			st.Flags = codec.SYN | codec.ACK
			st.AckMode = rapid.IntRange(0, 5).Draw(rt, "ackmode")
			st.AckVal = rapid.Uint32().Draw(rt, "ackval")
		case "data":
			st.Flags = codec.ACK | codec.PSH
			st.AckMode = rapid.IntRange(0, 5).Draw(rt, "ackmode")
			st.AckVal = rapid.Uint32().Draw(rt, "ackval")
			st.Len = rapid.IntRange(1, 1000).Draw(rt, "len")
		case "odd":
			st.Flags = uint8(rapid.IntRange(0, 63).Draw(rt, "flags"))
			st.AckMode = rapid.IntRange(0, 5).Draw(rt, "ackmode")
			st.AckVal = rapid.Uint32().Draw(rt, "ackval")
			st.Len = rapid.SampledFrom([]int{0, 0, 3}).Draw(rt, "len")
		}
		if tw := rapid.IntRange(0, 11).Draw(rt, "twice"); tw == 0 || (kind == "syn" && tw < 4) {
			st.Twice = true
		}
		if st.Flags&codec.ACK == 0 && rapid.IntRange(0, 2).Draw(rt, "staleack") == 0 {
			st.StaleAck = true
			st.AckMode = rapid.SampledFrom([]int{0, 5, 5}).Draw(rt, "stale_ackmode")
			st.AckVal = rapid.OneOf(rapid.Uint32Range(1, 5), rapid.Uint32()).Draw(rt, "stale_ackval")
		}
		sc.Steps = append(sc.Steps, st)
	}
	return sc
}

func TestPassive(t *testing.T) {
	name := "passive"
	if cookieMode() {
		name = "passive-cookie"
	}
	evid.Run(t, evid.Spec[Script]{Name: name, Gen: genPassive, Run: runPassive})
}

var _ = tcpip.ErrWouldBlock
