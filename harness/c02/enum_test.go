package c02

import (
	"fmt"
	"os"
	"strconv"
	"strings"
	"sync"
	"testing"

	"pgregory.net/rapid"
	"verifharness/evid"
	"verifharness/netsim"
)

type config struct {
	name string
	cfg  netsim.PairCfg
}

func configs() []config {
	return []config{
		{"v4-reno-sack", netsim.PairCfg{V6: false, SACK: true, CC: "reno", MTU: 1500}},
		{"v6-cubic-nosack", netsim.PairCfg{V6: true, SACK: false, CC: "cubic", MTU: 1500, BindAddr: true}},
		// keep-alive with a 5 ms idle time on both endpoints: probes are answered, a healthy
		// connection must never be given up (4 unanswered probes would be needed)
		{"v4-reno-keepalive", netsim.PairCfg{V6: false, SACK: true, CC: "reno", MTU: 1500, KeepaliveMs: 5, DualListener: true}},
		// the active (resp. passive) opener's initial sequence number sits below 2^32 by the
		// receive window plus half the data: the right edge of the peer's window crosses the
		// wrap point while the data has not yet (the value is filled in by withRcvBuf)
		{"v6-reno-window-edge-wraps-a", netsim.PairCfg{V6: true, SACK: true, CC: "reno", MTU: 1500, PlaceActive: true}},
		{"v4-cubic-window-edge-wraps-b", netsim.PairCfg{V6: false, SACK: false, CC: "cubic", MTU: 1500, PlacePassive: true, BindAddr: true}},
	}
}

func scenarios() []Scenario {
	return []Scenario{
		{Kind: "oneway", AtoB: 6000, BtoA: 0},
		{Kind: "simultaneous", AtoB: 3000, BtoA: 2500},
		{Kind: "halfclose", AtoB: 1500, BtoA: 4000},
		{Kind: "zerowindow", AtoB: 9000, BtoA: 10},
		{Kind: "zerowindow", AtoB: 4096, BtoA: 10}, // exactly fills the receive buffer: FIN pending behind a closed window with everything acknowledged
		{Kind: "oneway", AtoB: 100, BtoA: 0},
		{Kind: "oneway", AtoB: 0, BtoA: 0},
		{Kind: "idle", AtoB: 2000, BtoA: 300},
		{Kind: "closeearly", AtoB: 5000, BtoA: 0},
		{Kind: "bursts", AtoB: 3000, BtoA: 200},
	}
}

func withRcvBuf(sc Scenario, cfg netsim.PairCfg) netsim.PairCfg {
	if sc.Kind == "zerowindow" {
		cfg.RcvBuf = 4096
	}
	wnd := cfg.RcvBuf
	if wnd <= 0 {
		wnd = 1 << 20
	}
	if cfg.PlaceActive && cfg.ActiveISS == 0 {
		cfg.ActiveISS = 0 - uint32(wnd+sc.AtoB/2+1)
	}
	if cfg.PlacePassive && cfg.PassiveISS == 0 {
		cfg.PassiveISS = 0 - uint32(wnd+sc.BtoA/2+1)
	}
	return cfg
}

func dropRule(k string, count int) netsim.Rule {
	i := strings.IndexByte(k, '|')
	dir, _ := strconv.Atoi(k[:i])
	return netsim.Rule{Dir: dir, Key: k[i+1:], Count: count, Action: "drop"}
}

// decide maps a Result to a failure, honouring known findings.
func decide(c Case, r Result) *evid.Failure {
	return r.Fail
}

func runEnumCase(c Case) *evid.Failure {
	r := Run(c)
	fired := 0
	for _, f := range r.Fired {
		fired += f
	}
	want := 0
	for _, ru := range c.Cfg.Prog.Rules {
		want += ru.Count
	}
	switch {
	case fired == 0:
		evid.Label("rule_did_not_fire")
	case fired < want:
		evid.Label("rule_fired_partially")
	default:
		evid.Label("rule_fired_fully")
	}
	if r.Complete {
		evid.Label("completed")
	} else if r.EndpointErr {
		evid.Label("ended_with_endpoint_error")
	}
	if fired > 0 {
		var ks []string
		for _, ru := range c.Cfg.Prog.Rules {
			ks = append(ks, fmt.Sprintf("%d|%s x%d", ru.Dir, ru.Key, ru.Count))
		}
		evid.NonTrivialKey(c.Sc, c.Cfg.V6, c.Cfg.SACK, c.Cfg.CC, strings.Join(ks, ","))
		evid.Sample(c.Sc.Kind, map[string]any{"scenario": c.Sc, "v6": c.Cfg.V6, "dropped": ks, "completed": r.Complete})
	}
	return decide(c, r)
}

// TestEnumerate: for every scenario x configuration take a fault-free baseline,
// then drop every single packet class of the baseline once and twice, and (in
// the thorough tier) every pair.
func TestEnumerate(t *testing.T) {
	if evid.ReplayMode() {
		t.Skip("replays are hosted by TestRandomFaults (check name drop)")
	}
	type job struct{ c Case }
	var jobs []job
	idx := 0
	for _, cf := range configs() {
		for _, sc := range scenarios() {
			idx++
			if idx%evid.NShards != evid.ShardIdx {
				continue
			}
			base := Case{Sc: sc, Cfg: withRcvBuf(sc, cf.cfg)}
			r := Run(base)
			evid.Eval(1)
			if evid.Direct(t, "drop", r.Fail, Batch{Cases: []Case{base}}) {
				return
			}
			if !r.Complete {
				evid.Note("baseline of %s/%+v did not complete: %s", cf.name, sc, r.Msg)
				continue
			}
			keys := Keys(r.Events)
			evid.LabelN("baseline_packet_classes", int64(len(keys)))
			for _, k := range keys {
				for _, n := range []int{1, 2} {
					c := base
					c.Cfg.Prog = netsim.Program{Rules: []netsim.Rule{dropRule(k, n)}}
					jobs = append(jobs, job{c})
				}
			}
			// transmit faults: the sending link endpoint refuses the n-th frame of a kind
			// (for the connection a lost packet), alone and after the first handshake
			// packet was lost in the network
			for _, kd := range []struct {
				dir  int
				kind string
			}{{0, "SYN"}, {1, "SYNACK"}, {0, "DATA"}, {1, "DATA"}, {0, "ACK"}, {1, "ACK"}, {0, "FIN"}, {1, "FIN"}} {
				for _, skip := range []int{0, 1} {
					c := base
					c.Cfg.Prog = netsim.Program{Rules: []netsim.Rule{{Dir: kd.dir, Key: kd.kind, Skip: skip, Count: 1, Action: "refuse"}}}
					jobs = append(jobs, job{c})
				}
			}
			for _, hs := range []struct {
				dir  int
				kind string
			}{{0, "SYN"}, {1, "SYNACK"}} {
				c := base
				c.Cfg.Prog = netsim.Program{Rules: []netsim.Rule{{Dir: hs.dir, Key: hs.kind, Count: 1, Action: "drop"}, {Dir: hs.dir, Key: hs.kind, Skip: 1, Count: 1, Action: "refuse"}}}
				jobs = append(jobs, job{c})
			}
			if evid.Thorough() {
				for i := 0; i < len(keys); i++ {
					for j := i + 1; j < len(keys); j++ {
						c := base
						c.Cfg.Prog = netsim.Program{Rules: []netsim.Rule{dropRule(keys[i], 1), dropRule(keys[j], 1)}}
						jobs = append(jobs, job{c})
					}
				}
				evid.Exhaustive(fmt.Sprintf("all single (x1,x2) and pair drops of the %d packet classes of the baseline of %s %s a->b=%d b->a=%d", len(keys), cf.name, sc.Kind, sc.AtoB, sc.BtoA))
			} else {
				evid.Exhaustive(fmt.Sprintf("all single drops (x1,x2) of the %d packet classes of the baseline of %s %s a->b=%d b->a=%d", len(keys), cf.name, sc.Kind, sc.AtoB, sc.BtoA))
			}
		}
	}
	sem := make(chan struct{}, evid.Pick(24, 32))
	var wg sync.WaitGroup
	var mu sync.Mutex
	failed := false
	for _, j := range jobs {
		mu.Lock()
		if failed {
			mu.Unlock()
			break
		}
		mu.Unlock()
		sem <- struct{}{}
		wg.Add(1)
		go func(c Case) {
			defer wg.Done()
			defer func() { <-sem }()
			f := evid.Guard(func() *evid.Failure { return runEnumCase(c) })
			evid.Eval(1)
			mu.Lock()
			defer mu.Unlock()
			if evid.Direct(t, "drop", f, Batch{Cases: []Case{c}}) {
				failed = true
			}
		}(j.c)
	}
	wg.Wait()
}

// ---------------------------------------------------------------------------
// Random scenarios, sizes and fault programs with up to 3 faults.

type Batch struct {
	Cases []Case `json:"cases"`
}

// forceWrap is set by the C14 unit of the plan that hosts this package's random-fault test.
var forceWrap = os.Getenv("C02_FORCE_WRAP") == "1"

func genCase(rt *rapid.T) Case {
	var c Case
	c.Sc.Kind = rapid.SampledFrom([]string{"oneway", "simultaneous", "halfclose", "zerowindow", "idle", "closeearly", "bursts"}).Draw(rt, "kind")
	size := rapid.OneOf(rapid.IntRange(0, 3), rapid.IntRange(1, 3000), rapid.IntRange(3000, 40000))
	c.Sc.AtoB = size.Draw(rt, "a_to_b")
	c.Sc.BtoA = size.Draw(rt, "b_to_a")
	if c.Sc.Kind == "zerowindow" {
		switch rapid.IntRange(0, 2).Draw(rt, "zw_fill") {
		case 0: // the payload fills the 4 KiB receive buffer exactly: the FIN waits behind a closed window
			c.Sc.AtoB = 4096 * rapid.IntRange(1, 2).Draw(rt, "zw_bufs")
		default:
			if c.Sc.AtoB < 6000 {
				c.Sc.AtoB += 6000
			}
		}
	}
	c.Cfg.V6 = rapid.Bool().Draw(rt, "v6")
	c.Cfg.SACK = rapid.Bool().Draw(rt, "sack")
	c.Cfg.CC = rapid.SampledFrom([]string{"reno", "cubic"}).Draw(rt, "cc")
	c.Cfg.MTU = rapid.SampledFrom([]int{1280, 1500, 9000}).Draw(rt, "mtu")
	c.Cfg.BindAddr = rapid.Bool().Draw(rt, "bind-addr")
	c.Cfg.DualListener = !c.Cfg.V6 && rapid.IntRange(0, 2).Draw(rt, "dual-listener") == 1
	c.Cfg.RcvBuf = rapid.SampledFrom([]int{0, 0, 0, 4096, 16384, 65536}).Draw(rt, "rcvbuf")
	c.Cfg = withRcvBuf(c.Sc, c.Cfg)
	// sequence-number placement: next to a wrap point, at most (bytes sent + receive window)
	// below it, so that the data or the right edge of the window crosses it (always when hosted
	// by C14's plan with C02_FORCE_WRAP=1)
	if forceWrap || rapid.SampledFrom([]int{0, 0, 0, 1}).Draw(rt, "place") == 1 {
		near := func(label string, size int) uint32 {
			wnd := c.Cfg.RcvBuf
			if wnd <= 0 {
				wnd = 1 << 20
			}
			// below the point by: at most the data (the data crosses it), the window plus part
			// of the data (the right edge of the window crosses it first), or anything up to both
			k := uint32(rapid.OneOf(rapid.IntRange(0, size+2), rapid.IntRange(wnd+1, wnd+size+1), rapid.IntRange(0, size+wnd+2)).Draw(rt, label+"_k"))
			if rapid.Bool().Draw(rt, label+"_32") {
				return 0 - k
			}
			return 1<<31 - k
		}
		switch rapid.IntRange(0, 2).Draw(rt, "place_who") {
		case 0:
			c.Cfg.PlaceActive, c.Cfg.ActiveISS = true, near("active", c.Sc.AtoB)
		case 1:
			c.Cfg.PlacePassive, c.Cfg.PassiveISS = true, near("passive", c.Sc.BtoA)
		default:
			c.Cfg.PlaceActive, c.Cfg.ActiveISS = true, near("active", c.Sc.AtoB)
			c.Cfg.PlacePassive, c.Cfg.PassiveISS = true, near("passive", c.Sc.BtoA)
		}
	}
	mss := c.Cfg.MTU - 40 - 12
	if c.Cfg.V6 {
		mss -= 20
	}
	n := rapid.IntRange(1, 3).Draw(rt, "nfaults")
	for i := 0; i < n; i++ {
		var r netsim.Rule
		r.Dir = rapid.IntRange(0, 1).Draw(rt, "dir")
		total, other := c.Sc.AtoB, c.Sc.BtoA
		if r.Dir == 1 {
			total, other = other, total
		}
		switch rapid.SampledFrom([]string{"DATA", "DATA", "ACK", "ACK", "FIN", "FIN", "SYN", "WUPD0", "ACKFIN"}).Draw(rt, "class") {
		case "DATA":
			r.Key = fmt.Sprintf("DATA@%d", mss*rapid.IntRange(0, total/mss).Draw(rt, "seg"))
		case "ACK":
			a := mss * rapid.IntRange(0, other/mss+1).Draw(rt, "ack")
			if a > other {
				a = other
			}
			r.Key = fmt.Sprintf("ACK@%d", a)
		case "ACKFIN":
			r.Key = fmt.Sprintf("ACK@%d", other+1)
		case "FIN":
			r.Key = "FIN"
		case "SYN":
			r.Key = []string{"SYN", "SYNACK"}[r.Dir]
		case "WUPD0":
			r.Key = "WUPD0"
		}
		r.Count = rapid.IntRange(1, 2).Draw(rt, "count")
		r.Action = rapid.SampledFrom([]string{"drop", "drop", "drop", "hold", "dup"}).Draw(rt, "action")
		r.N = rapid.IntRange(1, 3).Draw(rt, "n")
		// at most two faults per packet class ("a bounded number of times")
		dupKey := false
		for _, o := range c.Cfg.Prog.Rules {
			if o.Dir == r.Dir && o.Key == r.Key {
				dupKey = true
			}
		}
		if !dupKey {
			c.Cfg.Prog.Rules = append(c.Cfg.Prog.Rules, r)
		}
	}
	// a transmit fault: the sending link endpoint refuses a frame (WritePacket returns an
	// error); for the connection that is a lost packet like any other
	if rapid.SampledFrom([]int{0, 0, 0, 1}).Draw(rt, "refuse") > 0 {
		c.Cfg.Prog.Rules = append(c.Cfg.Prog.Rules, netsim.Rule{Dir: rapid.IntRange(0, 1).Draw(rt, "rdir"),
			Key:  rapid.SampledFrom([]string{"DATA", "ACK", "FIN", "SYN", "SYNACK"}).Draw(rt, "rkind"),
			Skip: rapid.SampledFrom([]int{0, 0, 1, 2}).Draw(rt, "rskip"), Count: rapid.IntRange(1, 2).Draw(rt, "rcount"), Action: "refuse"})
	}
	return c
}

func runBatch(b Batch) *evid.Failure {
	res := make([]*evid.Failure, len(b.Cases))
	var wg sync.WaitGroup
	for i := range b.Cases {
		wg.Add(1)
		go func(i int) {
			defer wg.Done()
			res[i] = evid.Guard(func() *evid.Failure { return runEnumCase(b.Cases[i]) })
		}(i)
	}
	wg.Wait()
	evid.Eval(int64(len(b.Cases)) - 1)
	for i, f := range res {
		if f != nil {
			f.Msg = fmt.Sprintf("case %d of the batch: %s", i, f.Msg)
			return f
		}
	}
	return nil
}

func TestRandomFaults(t *testing.T) {
	evid.Run(t, evid.Spec[Batch]{Name: "drop", Gen: func(rt *rapid.T) Batch {
		n := rapid.IntRange(1, 6).Draw(rt, "batch")
		var b Batch
		for i := 0; i < n; i++ {
			b.Cases = append(b.Cases, genCase(rt))
		}
		return b
	}, Run: runBatch})
}
