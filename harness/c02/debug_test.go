package c02

import (
	"os"
	"runtime"
	"sync"
	"testing"

	"github.com/brewlin/net-protocol/stack"
	"verifharness/netsim"
)

var (
	pmu    sync.Mutex
	probes = map[*stack.Stack]stack.TCPEndpointState{}
	pcount = map[*stack.Stack]int{}
)

func TestDebugStall(t *testing.T) {
	if os.Getenv("C02_DEBUG") == "" {
		t.Skip()
	}
	// CPU pressure
	for i := 0; i < 32; i++ {
		go func() {
			for {
				runtime.Gosched()
			}
		}()
	}
	cases := []Case{
		{Sc: Scenario{Kind: "zerowindow", AtoB: 6002, BtoA: 23}, Cfg: netsim.PairCfg{V6: true, CC: "cubic", MTU: 1500, RcvBuf: 4096, Prog: netsim.Program{Rules: []netsim.Rule{{Dir: 0, Key: "DATA@2856", Count: 2, Action: "drop"}}}}},
		{Sc: Scenario{Kind: "halfclose", AtoB: 155, BtoA: 27588}, Cfg: netsim.PairCfg{V6: true, CC: "cubic", MTU: 1500, Prog: netsim.Program{Rules: []netsim.Rule{{Dir: 1, Key: "DATA@0", Count: 1, Action: "drop"}}}}},
	}
	var wg sync.WaitGroup
	var mu sync.Mutex
	OnPair = func(p *netsim.Pair) {
		for _, s := range []*stack.Stack{p.SA, p.SB} {
			s := s
			s.AddTCPProbe(func(st stack.TCPEndpointState) {
				pmu.Lock()
				probes[s] = st
				pcount[s]++
				pmu.Unlock()
			})
		}
	}
	dumped := false
	OnStall = func(p *netsim.Pair) {
		t.Logf("STATS A: %s", netsim.StatsString(p.SA))
		t.Logf("STATS B: %s", netsim.StatsString(p.SB))
		pmu.Lock()
		for _, s := range []*stack.Stack{p.SA, p.SB} {
			st := probes[s]
			t.Logf("probe calls=%d last: una=%d nxt=%d outstanding=%d cwnd=%d wnd=%d closed=%v rto=%v rcvnxt=%d", pcount[s], st.Sender.SndUna, st.Sender.SndNxt, st.Sender.Outstanding, st.Sender.SndCwnd, st.Sender.SndWnd, st.Sender.Closed, st.Sender.RTO, st.Receiver.RcvNxt)
		}
		pmu.Unlock()
		mu.Lock()
		defer mu.Unlock()
		if !dumped {
			dumped = true
			buf := make([]byte, 64<<20)
			n := runtime.Stack(buf, true)
			os.WriteFile("/tmp/c02-stacks.txt", buf[:n], 0o644)
		}
	}
	for round := 0; round < 20; round++ {
		for i := 0; i < 48; i++ {
			wg.Add(1)
			go func(i int) {
				defer wg.Done()
				r := Run(cases[i%2])
				if r.Fail != nil {
					mu.Lock()
					defer mu.Unlock()
					t.Logf("FAIL %s", r.Fail.Msg[:300])

				}
			}(i)
		}
		wg.Wait()
		if dumped {
			break
		}
	}
}

func init() {
	if os.Getenv("C02_DEBUG") != "" {
		StallQuiet = 4e9
	}
}
