// Package c02 decides property C02: everything written before the write side
// is shut down is eventually delivered, followed by end-of-stream; a clean
// closing exchange leaves both endpoints closed without error; and no
// connection goes permanently quiet with data or a FIN outstanding while the
// network keeps delivering packets.
package c02

import (
	"bytes"
	"fmt"
	"strings"
	"sync"
	"sync/atomic"
	"time"

	tcpip "github.com/brewlin/net-protocol/protocol"
	"verifharness/codec"
	"verifharness/evid"
	"verifharness/netsim"
)

// Scenario is one transfer/close choreography.
type Scenario struct {
	Kind string `json:"kind"` // oneway | simultaneous | halfclose | zerowindow | idle | closeearly | bursts
	AtoB int    `json:"a_to_b"`
	BtoA int    `json:"b_to_a"`
}

// Case = scenario x configuration x fault program (in Cfg.Prog).
type Case struct {
	Sc  Scenario       `json:"scenario"`
	Cfg netsim.PairCfg `json:"cfg"`
}

// StallQuiet is the wire silence that counts as a stall: with at most two
// consecutive losses of one packet the longest legitimate silence is 4 s (SYN
// retransmission 1 s, 2 s, 4 s; data RTO 0.2, 0.4, 0.8 s).
var StallQuiet = 15 * time.Second

// quietNeeded is the wire silence that counts as a stall given what the wire
// did lately: every further loss of the same exchange doubles the sender's
// timer (SYN and SYN-ACK 1, 2, 4, 8, 16 s; data 0.2, 0.4, ... s), so a program
// that stacks k faults on one exchange (drops, transmit errors, both
// directions) legitimately produces a silence of 2^(k-1) s. k is counted over
// the last dozen events; the bound stays below the 90 s connect deadline.
func quietNeeded(ev []netsim.Event) time.Duration {
	from := len(ev) - 12
	if from < 0 {
		from = 0
	}
	k := 0
	for _, e := range ev[from:] {
		if e.Action != "" {
			k++
		}
	}
	d := time.Duration(1<<uint(k)+2) * time.Second
	// what the senders' timers are observed to do: if the last two emissions of the same
	// packet by one side (delivered, dropped or refused by the link alike) were g apart, the
	// next one is due 2g after the last
	for dir := 0; dir < 2; dir++ {
		last := -1
		for i := len(ev) - 1; i >= 0; i-- {
			if ev[i].Dir != dir {
				continue
			}
			if last < 0 {
				last = i
				continue
			}
			if ev[i].Key == ev[last].Key && ev[i].Pkt.Seq == ev[last].Pkt.Seq {
				if g := 2*ev[last].T.Sub(ev[i].T) + 3*time.Second; g > d {
					d = g
				}
				break
			}
		}
	}
	if d < StallQuiet {
		d = StallQuiet
	}
	if d > 70*time.Second {
		d = 70 * time.Second
	}
	return d
}

// silentFor: time since either side last tried to put anything on the wire (a frame the
// link refused is an attempt too).
func silentFor(p *netsim.Pair) time.Duration {
	q := p.W.SilentFor()
	if ev := p.W.Events(); len(ev) > 0 {
		if d := time.Since(ev[len(ev)-1].T); d < q {
			q = d
		}
	}
	return q
}

// OnStall is a debugging hook invoked when a stall is detected, before the
// harness tears the connection down.
var OnStall func(p *netsim.Pair)

// OnPair is a debugging hook invoked right after the pair was built.
var OnPair func(p *netsim.Pair)

func pattern(seed uint64, n int) []byte {
	b := make([]byte, n)
	x := seed*0x9e3779b97f4a7c15 + 1
	for i := range b {
		x ^= x << 13
		x ^= x >> 7
		x ^= x << 17
		b[i] = byte(x >> 24)
	}
	return b
}

type side struct {
	name     string
	sock     *netsim.Sock
	want     []byte // what this side must receive
	got      []byte
	eof      bool
	afterEOF int
	rerr     *tcpip.Error
	werr     *tcpip.Error
	wrote    int
	shutdown bool
	closed   bool  // the application closed the socket (scenario closeearly)
	prog     int64 // bytes read + written so far (atomic; read by the watchdog)
}

// Result of one run.
type Result struct {
	Established bool
	Msg         string
	Events      []netsim.Event
	Fired       []int
	Fail        *evid.Failure
	Stalled     bool
	EndpointErr bool
	Complete    bool
}

// write sends data then shuts the write side down.
func (s *side) writeAll(data []byte, stop <-chan struct{}) {
	if !s.writePart(data, stop) {
		return
	}
	if err := s.sock.EP.Shutdown(tcpip.ShutdownWrite); err != nil {
		s.werr = err
		return
	}
	s.shutdown = true
}

// writePart writes data without closing; false if the write failed or was stopped.
func (s *side) writePart(data []byte, stop <-chan struct{}) bool {
	rem := data
	for len(rem) > 0 {
		n, err, ok := s.sock.Write(rem, 2*time.Second)
		s.wrote += n
		atomic.AddInt64(&s.prog, int64(n))
		rem = rem[n:]
		if err != nil {
			s.werr = err
			return false
		}
		if !ok {
			select {
			case <-stop:
				return false
			default:
			}
		}
	}
	return true
}

// readAll reads until end of stream, an error or stop.
func (s *side) readAll(stop <-chan struct{}) {
	for {
		v, err, ok := s.sock.Read(500*time.Millisecond, nil)
		if !ok {
			select {
			case <-stop:
				return
			default:
				continue
			}
		}
		if err == tcpip.ErrClosedForReceive {
			s.eof = true
			return
		}
		if err != nil {
			s.rerr = err
			return
		}
		s.got = append(s.got, v...)
		atomic.AddInt64(&s.prog, int64(len(v)))
	}
}

// Run executes one case. A keep-alive reset on a fault-free network is a
// verdict that depends on the harness host: with a 5 ms probe interval and four
// probes the peer's protocol goroutine only has to go unscheduled for 25 ms on
// a loaded machine to be declared dead, which is what keep-alive is for. Such a
// verdict is reported only when two further runs of the case end the same way
// (an endpoint that does not answer probes fails every time).
func Run(c Case) Result {
	r := runOnce(c)
	if r.Fail == nil || r.Fail.Sig != "error-without-fault" || c.Cfg.KeepaliveMs == 0 {
		return r
	}
	for i := 0; i < 2; i++ {
		r2 := runOnce(c)
		if r2.Fail == nil || r2.Fail.Sig != r.Fail.Sig {
			evid.Label("keepalive-reset-not-confirmed")
			evid.Unconfirmed()
			return r2
		}
	}
	return r
}

func runOnce(c Case) Result {
	var res Result
	p := netsim.NewPair(c.Cfg)
	defer p.Close()
	if OnPair != nil {
		OnPair(p)
	}
	estab := make(chan string, 1)
	go func() { estab <- p.Establish(90 * time.Second) }()
	msg := ""
	for waiting := true; waiting; {
		select {
		case msg = <-estab:
			waiting = false
		case <-time.After(100 * time.Millisecond):
			if q := silentFor(p); q > StallQuiet && !p.W.PendingFaults() && q > quietNeeded(p.W.Events()) {
				// The handshake is part of the property: a connect that neither
				// completes nor fails while the wire stays silent is a stall.
				res.Stalled = true
				res.Events = p.W.Events()
				res.Fired = p.W.Fired()
				res.Fail = evid.Failf("stall:handshake", "handshake neither completed nor failed and the wire has been silent for %v\n%s", p.W.SilentFor().Round(time.Second), p.TraceTail(30))
				if p.C != nil {
					p.C.EP.Close()
				}
				if p.L != nil {
					p.L.EP.Close()
				}
				<-estab
				return res
			}
		}
	}
	if msg != "" {
		res.Msg = msg
		res.Events = p.W.Events()
		res.Fired = p.W.Fired()
		if strings.Contains(msg, "still in progress") || strings.Contains(msg, "nothing at deadline") {
			res.Msg = "handshake still making progress after 90 s: " + msg
		}
		res.EndpointErr = true
		return res
	}
	res.Established = true
	wantAB := pattern(1, c.Sc.AtoB)
	wantBA := pattern(2, c.Sc.BtoA)
	if c.Sc.Kind == "closeearly" {
		wantBA = nil // A is gone after its Close: nothing can be sent to it
	}
	A := &side{name: "A", sock: p.C, want: wantBA}
	B := &side{name: "B", sock: p.S, want: wantAB}
	stop := make(chan struct{})
	var wg sync.WaitGroup
	run := func(f func()) {
		wg.Add(1)
		go func() { defer wg.Done(); f() }()
	}
	switch c.Sc.Kind {
	case "oneway":
		// A sends and closes; B reads to EOF, then sends its part and closes; A reads to EOF.
		run(func() { A.writeAll(wantAB, stop) })
		run(func() { B.readAll(stop); B.writeAll(wantBA, stop) })
		run(func() { A.readAll(stop) })
	case "idle":
		// the established connection sits idle (with keep-alive configured this is when the
		// probes run), then behaves like "oneway"
		run(func() { time.Sleep(120 * time.Millisecond); A.writeAll(wantAB, stop) })
		run(func() { B.readAll(stop); B.writeAll(wantBA, stop) })
		run(func() { A.readAll(stop) })
	case "bursts":
		// A sends its part in three bursts with pauses longer than the retransmission timeout in
		// between (1.3 s, above the initial 1 s; 0.4 s, above the 200 ms floor): every burst starts
		// on a connection whose timers have run out while it was idle. Then like "oneway".
		run(func() {
			n := len(wantAB)
			if A.writePart(wantAB[:n/3], stop) {
				time.Sleep(1300 * time.Millisecond)
				if A.writePart(wantAB[n/3:2*n/3], stop) {
					time.Sleep(400 * time.Millisecond)
					A.writeAll(wantAB[2*n/3:], stop)
				}
			}
		})
		run(func() { B.readAll(stop); B.writeAll(wantBA, stop) })
		run(func() { A.readAll(stop) })
	case "halfclose":
		// A half-closes at once (nothing to send beyond AtoB), B answers with more data afterwards.
		run(func() { A.writeAll(wantAB, stop) })
		run(func() { B.readAll(stop); time.Sleep(5 * time.Millisecond); B.writeAll(wantBA, stop) })
		run(func() { A.readAll(stop) })
	case "closeearly":
		// A writes and closes the socket at once (Close, not Shutdown: data and FIN may still be
		// unacknowledged); the stack has to finish the exchange on its own. B reads to EOF and closes.
		run(func() {
			rem := wantAB
			for len(rem) > 0 {
				n, err, ok := A.sock.Write(rem, 2*time.Second)
				A.wrote += n
				atomic.AddInt64(&A.prog, int64(n))
				rem = rem[n:]
				if err != nil {
					A.werr = err
					return
				}
				if !ok {
					select {
					case <-stop:
						return
					default:
					}
				}
			}
			A.sock.EP.Close()
			A.closed, A.shutdown, A.eof = true, true, true
		})
		run(func() { B.readAll(stop); B.writeAll(nil, stop) })
	case "simultaneous":
		run(func() { A.writeAll(wantAB, stop) })
		run(func() { B.writeAll(wantBA, stop) })
		run(func() { A.readAll(stop) })
		run(func() { B.readAll(stop) })
	case "zerowindow":
		// B does not read until its advertised window has closed (or 1.5 s passed), then drains.
		run(func() { A.writeAll(wantAB, stop) })
		run(func() {
			deadline := time.Now().Add(1500 * time.Millisecond)
			for time.Now().Before(deadline) {
				ev := p.W.Events()
				zero := false
				for i := len(ev) - 1; i >= 0; i-- {
					if ev[i].Dir == 1 && ev[i].Pkt.L4Kind == "tcp" {
						zero = ev[i].Pkt.Wnd == 0
						break
					}
				}
				if zero {
					break
				}
				time.Sleep(2 * time.Millisecond)
			}
			time.Sleep(30 * time.Millisecond)
			B.readAll(stop)
			B.writeAll(wantBA, stop)
		})
		run(func() { A.readAll(stop) })
	default:
		panic("unknown scenario " + c.Sc.Kind)
	}
	stallState, stallErr := "", false
	finished := make(chan struct{})
	go func() { wg.Wait(); close(finished) }()
	// watchdog on wire quiescence, and on application-level progress: a connection on which
	// only empty segments (window probes and their answers) travel while nothing is delivered
	// or accepted any more has gone quiet just the same
	progress := func() int64 { return atomic.LoadInt64(&A.prog) + atomic.LoadInt64(&B.prog) }
	lastProgress, lastProgressAt := progress(), time.Now()
	for waiting := true; waiting; {
		select {
		case <-finished:
			waiting = false
		case <-time.After(100 * time.Millisecond):
			if n := progress(); n != lastProgress {
				lastProgress, lastProgressAt = n, time.Now()
			}
			noProgress := time.Since(lastProgressAt) > StallQuiet
			if noProgress {
				// (the same allowance for stacked faults as for wire silence: the sender's
				// timer has doubled with every loss of the exchange)
				noProgress = time.Since(lastProgressAt) > quietNeeded(p.W.Events())
			}
			if noProgress {
				// only counts if the wire carried nothing but empty segments meanwhile
				for _, e := range p.W.Events() {
					if e.T.After(lastProgressAt) && e.Pkt.L4Kind == "tcp" && (len(e.Pkt.Payload) > 0 || e.Pkt.Flags&(codec.SYN|codec.FIN|codec.RST) != 0) {
						noProgress = false
						lastProgressAt = e.T
					}
				}
			}
			if q := silentFor(p); (q > StallQuiet || noProgress) && !p.W.PendingFaults() && (noProgress || q > quietNeeded(p.W.Events())) {
				res.Stalled = true
				res.Events = p.W.Events()
				stallState = fmt.Sprintf("A: got %d/%d eof=%v wrote %d err=%v/%v; B: got %d/%d eof=%v wrote %d err=%v/%v", len(A.got), len(A.want), A.eof, A.wrote, A.rerr, A.werr, len(B.got), len(B.want), B.eof, B.wrote, B.rerr, B.werr)
				stallErr = A.rerr != nil || A.werr != nil || B.rerr != nil || B.werr != nil
				if OnStall != nil {
					OnStall(p)
				}
				close(stop)
				// unblock everything
				p.C.EP.Close()
				p.S.EP.Close()
				<-finished
				waiting = false
			}
		}
	}
	if !res.Stalled {
		res.Events = p.W.Events()
	}
	res.Fired = p.W.Fired()
	anyErr := A.rerr != nil || A.werr != nil || B.rerr != nil || B.werr != nil
	res.EndpointErr = anyErr
	trace := func() string { return p.TraceTail(60) }
	if res.Stalled && !stallErr && A.closed {
		// closeearly: the application is gone, so nobody can be told, but the stack that gives
		// up the exchange (close timer, retransmission budget) says so on the wire with a reset.
		// That is the explicit failure; whether the peer can accept that one segment is beyond
		// the aborting side's reach (all its data lost and the window full: SND.NXT lies just
		// outside the peer's window; all data received but unacknowledged: SND.UNA would).
		// The reset must be the one RFC 793 asks for (sequence number SND.NXT, i.e. the end
		// of everything A has put on the wire): with any other number it is A's fault if the
		// peer ignores it (F28).
		var sent uint32
		have := false
		for _, e := range res.Events {
			k := e.Pkt
			if e.Dir != 0 || k.L4Kind != "tcp" {
				continue
			}
			if k.Flags&codec.RST != 0 {
				if have && k.Seq == sent {
					stallErr = true
					evid.Label("closeearly:aborted-with-a-reset")
				}
				break
			}
			if end := k.Seq + k.SegLen(); !have || int32(end-sent) > 0 {
				sent, have = end, true
			}
		}
	}
	if res.Stalled {
		res.EndpointErr = stallErr
		if !stallErr {
			sig := "stall"
			if zeroWindowUpdateLost(res.Events) {
				sig = "stall:zero-window-update-lost"
			}
			res.Fail = evid.Failf(sig, "connection went quiet for %v with data or a FIN outstanding and no endpoint error (%s)\n%s", StallQuiet, stallState, trace())
		}
		return res
	}
	// (a) completeness and nothing after end of stream
	for _, s := range []*side{A, B} {
		if len(s.got) > len(s.want) || !bytes.Equal(s.got, s.want[:len(s.got)]) {
			res.Fail = evid.Failf("corrupt", "%s received %d bytes that are not a prefix of what the peer wrote\n%s", s.name, len(s.got), trace())
			return res
		}
		if s.eof && len(s.got) != len(s.want) {
			res.Fail = evid.Failf("eof-early", "%s got end of stream after %d of %d bytes written before the peer's shutdown\n%s", s.name, len(s.got), len(s.want), trace())
			return res
		}
	}
	if anyErr {
		// an endpoint may give up when packets are lost, but not on a network that delivered
		// every packet once, unaltered and in order
		faulted := false
		for _, e := range res.Events {
			if e.Action != "" {
				faulted = true
			}
		}
		if !faulted {
			res.Fail = evid.Failf("error-without-fault", "an endpoint reported an error (A read=%v write=%v, B read=%v write=%v) although the network delivered every packet (A got %d/%d eof=%v, B got %d/%d eof=%v)\n%s",
				A.rerr, A.werr, B.rerr, B.werr, len(A.got), len(A.want), A.eof, len(B.got), len(B.want), B.eof, trace())
			return res
		}
	}
	if !anyErr && !res.Stalled {
		if !(A.eof && B.eof) {
			res.Fail = evid.Failf("incomplete", "run ended without end of stream on both sides and without error (A eof=%v, B eof=%v)\n%s", A.eof, B.eof, trace())
			return res
		}
		res.Complete = true
		// nothing may appear after end of stream
		for _, s := range []*side{A, B} {
			if s.closed {
				continue
			}
			v, _, err := s.sock.EP.Read(nil)
			if err != tcpip.ErrClosedForReceive {
				res.Fail = evid.Failf("after-eof", "%s: Read after end of stream returned %d bytes, err=%v", s.name, len(v), err)
				return res
			}
		}
		// (b) clean close when no packet of the closing exchange was dropped
		if !closingExchangeDisturbed(res.Events) {
			time.Sleep(20 * time.Millisecond)
			for _, s := range []*side{A, B} {
				if s.closed {
					continue
				}
				if e := s.sock.EP.GetSockOpt(tcpip.ErrorOption{}); e != nil {
					res.Fail = evid.Failf("close-error", "%s: ErrorOption=%v after an undisturbed closing exchange\n%s", s.name, e, trace())
					return res
				}
				if _, _, e := s.sock.EP.Write(tcpip.SlicePayload([]byte{1}), tcpip.WriteOptions{}); e != tcpip.ErrClosedForSend {
					res.Fail = evid.Failf("close-state", "%s: Write after close returned %v, want ErrClosedForSend\n%s", s.name, e, trace())
					return res
				}
			}
			onlyDrops := true
			for _, e := range res.Events {
				if e.Action != "" && e.Action != "drop" && e.Action != "bgdrop" {
					onlyDrops = false
				}
			}
			// A reset that follows the complete exchange (both FINs delivered and both
			// acknowledged) is not part of it: this stack keeps no TIME-WAIT state, so a
			// late segment - the answer to a keep-alive probe that crossed the last ACK -
			// meets no socket and is answered by a reset (C03's rule), with both
			// endpoints already closed without error.
			var finEnd [2]uint32
			var finSent, finAcked [2]bool
			for _, e := range p.W.Events() {
				if k := e.Pkt; k.L4Kind == "tcp" && e.Action == "" {
					if k.Flags&codec.FIN != 0 {
						finSent[e.Dir], finEnd[e.Dir] = true, k.Seq+uint32(len(k.Payload))+1
					}
					if o := 1 - e.Dir; k.Flags&codec.ACK != 0 && k.Flags&codec.RST == 0 && finSent[o] && k.Ack == finEnd[o] {
						finAcked[o] = true
					}
				}
				if finAcked[0] && finAcked[1] {
					break
				}
				if onlyDrops && e.Pkt.L4Kind == "tcp" && e.Pkt.Flags&codec.RST != 0 {
					res.Fail = evid.Failf("close-rst", "RST on the wire although no packet of the closing exchange was lost\n%s", trace())
					return res
				}
			}
		}
	}
	return res
}

// closingExchangeDisturbed reports whether a FIN or an ACK following a FIN was
// dropped/held/duplicated by the wire.
func closingExchangeDisturbed(ev []netsim.Event) bool {
	finSeen := false
	for _, e := range ev {
		if e.Pkt.L4Kind != "tcp" {
			continue
		}
		if e.Pkt.Flags&codec.FIN != 0 {
			finSeen = true
		}
		if finSeen && e.Action != "" {
			return true
		}
		if e.Pkt.Flags&codec.FIN != 0 && e.Action != "" {
			return true
		}
	}
	return false
}

// zeroWindowUpdateLost recognises finding F3 precisely: in some direction the
// last packet that reached the sender advertised a zero window and
// acknowledged everything the sender had sent, and a later window-opening
// packet from the receiver was dropped.
func zeroWindowUpdateLost(ev []netsim.Event) bool {
	for dir := 0; dir < 2; dir++ { // dir = direction of the data sender
		var maxEnd uint32
		haveData := false
		lastDeliveredZero, lastAckAll, lostUpdate := false, false, false
		for _, e := range ev {
			if e.Pkt.L4Kind != "tcp" {
				continue
			}
			if e.Dir == dir {
				end := e.Pkt.Seq + e.Pkt.SegLen()
				if !haveData || int32(end-maxEnd) > 0 {
					maxEnd, haveData = end, true
				}
				continue
			}
			dropped := e.Action == "drop" || e.Action == "bgdrop"
			if !dropped {
				lastDeliveredZero = e.Pkt.Wnd == 0 && e.Pkt.Flags&codec.RST == 0
				lastAckAll = haveData && e.Pkt.Ack == maxEnd
				lostUpdate = false
			} else if e.Pkt.Wnd > 0 {
				lostUpdate = true
			}
		}
		if lastDeliveredZero && lastAckAll && lostUpdate {
			return true
		}
	}
	return false
}

// Keys lists the distinct (direction, class key) pairs of a run in order of
// first appearance.
func Keys(ev []netsim.Event) []string {
	seen := map[string]bool{}
	var out []string
	for _, e := range ev {
		if e.Pkt.L4Kind != "tcp" || e.Key == "RST" {
			continue
		}
		k := fmt.Sprintf("%d|%s", e.Dir, e.Key)
		if !seen[k] {
			seen[k] = true
			out = append(out, k)
		}
	}
	return out
}
