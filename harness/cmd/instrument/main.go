// Command instrument writes a schedule-point-instrumented copy of one package
// of the repository under test, plus a shim file and a `go build -overlay`
// description (DESIGN.md §3.2). It is run by /verif/check at check time
// (plan.json "overlay_cmd"), so what gets explored is the CURRENT working tree.
//
//	go run ./cmd/instrument [-repo DIR] <target> <outdir>
//
// target is a directory below <repo>/pkg ("tmutex", "sleep") or a path
// relative to the repository root. The repository root is -repo, else
// $VERIF_REPO, else /repo. Written to <outdir>: one instrumented copy per
// non-test .go file of the package that needed a change, zz_verif_sched.go (the
// shim, added to the package) and overlay.json.
//
// The rewrite is a text splice at positions found with go/parser, so every
// line of the original keeps its line number:
//
//   - every call `atomic.F(...)` of sync/atomic becomes `vatomic.F(...)`; the
//     shim's method is `verifYield(); return atomic.F(...)`: one schedule point
//     immediately before each atomic operation;
//   - a blocking receive used as a statement (`<-ch`, `v := <-ch`, `v, ok = <-ch`)
//     gets `verifRecvPoint(func() bool { return len(ch) > 0 }, cap(ch));` in
//     front: a schedule point that is enabled only while a value is buffered;
//   - a blocking send statement gets the analogous `verifSendPoint`;
//   - a `select` with a `default` clause (non-blocking) gets `verifYield();` in
//     front.
//
// The shim exports `VerifYield func()` and `VerifBlockOn func(kind string,
// chanCap int, ready func() bool)`. With both nil (the default) the instrumented
// code behaves exactly like the original.
//
// Anything the rewrite cannot model faithfully is an ERROR (the check is then
// inconclusive, never silently weaker): sync/atomic used other than by calling
// its functions (atomic.Value, atomic.Int32 ..., function values), a receive
// nested inside an expression, a `select` without `default`, a `go` statement,
// a labelled channel statement, dot- or blank-imports of sync/atomic, range
// over a channel. Limits of the model that are NOT detected statically: a
// receive is considered enabled iff len(ch) > 0, so unbuffered and closed
// channels are not modelled (a receive on them is never enabled; kind/cap are
// passed to the hook so the harness can say so); other blocking primitives
// (sync.Mutex, sync.Cond, time.Sleep ...) are not schedule points.
package main

import (
	"encoding/json"
	"flag"
	"fmt"
	"go/ast"
	"go/parser"
	"go/token"
	"os"
	"path/filepath"
	"sort"
	"strconv"
	"strings"
)

// sigs: sync/atomic functions -> (parameter list, argument list, result).
type sig struct{ params, args, result string }

var sigs = map[string]sig{}

func init() {
	for _, t := range []struct{ name, typ string }{
		{"Int32", "int32"}, {"Int64", "int64"}, {"Uint32", "uint32"}, {"Uint64", "uint64"},
		{"Uintptr", "uintptr"}, {"Pointer", "unsafe.Pointer"},
	} {
		T := t.typ
		sigs["Load"+t.name] = sig{"p *" + T, "p", T}
		sigs["Store"+t.name] = sig{"p *" + T + ", v " + T, "p, v", ""}
		sigs["Swap"+t.name] = sig{"p *" + T + ", v " + T, "p, v", T}
		sigs["CompareAndSwap"+t.name] = sig{"p *" + T + ", o, n " + T, "p, o, n", "bool"}
		if t.name != "Pointer" {
			sigs["Add"+t.name] = sig{"p *" + T + ", d " + T, "p, d", T}
		}
	}
	for _, t := range []struct{ name, typ string }{{"Int32", "int32"}, {"Int64", "int64"}, {"Uint32", "uint32"}, {"Uint64", "uint64"}, {"Uintptr", "uintptr"}} {
		sigs["And"+t.name] = sig{"p *" + t.typ + ", m " + t.typ, "p, m", t.typ}
		sigs["Or"+t.name] = sig{"p *" + t.typ + ", m " + t.typ, "p, m", t.typ}
	}
}

type splice struct {
	off  int // byte offset in the original
	del  int // bytes to delete there
	text string
}

type fileResult struct {
	changed bool
	out     []byte
	used    map[string]bool // sync/atomic functions called
	points  int             // schedule points inserted
	resets  []string        // assignments that restore package-level variables to their initial values
}

func fail(format string, a ...any) {
	fmt.Fprintf(os.Stderr, "instrument: "+format+"\n", a...)
	os.Exit(1)
}

func main() {
	repoFlag := flag.String("repo", "", "repository root (default $VERIF_REPO, else /repo)")
	flag.Parse()
	if flag.NArg() != 2 {
		fail("usage: instrument [-repo DIR] <target> <outdir>")
	}
	repo := *repoFlag
	if repo == "" {
		repo = os.Getenv("VERIF_REPO")
	}
	if repo == "" {
		repo = "/repo"
	}
	repo, _ = filepath.Abs(repo)
	target, outdir := flag.Arg(0), flag.Arg(1)
	pkgDir := filepath.Join(repo, target)
	if !strings.Contains(target, "/") {
		pkgDir = filepath.Join(repo, "pkg", target)
	}
	ents, err := os.ReadDir(pkgDir)
	if err != nil {
		fail("%v", err)
	}
	if err := os.MkdirAll(outdir, 0o755); err != nil {
		fail("%v", err)
	}
	replace := map[string]string{}
	used := map[string]bool{}
	pkgName := ""
	points := 0
	var resets []string
	var names []string
	for _, e := range ents {
		n := e.Name()
		if e.IsDir() || !strings.HasSuffix(n, ".go") || strings.HasSuffix(n, "_test.go") || n == "zz_verif_sched.go" {
			continue
		}
		names = append(names, n)
	}
	sort.Strings(names)
	for _, n := range names {
		src, err := os.ReadFile(filepath.Join(pkgDir, n))
		if err != nil {
			fail("%v", err)
		}
		r, pn, err := instrumentFile(n, src)
		if err != nil {
			fail("%s: %v", filepath.Join(pkgDir, n), err)
		}
		if pkgName == "" {
			pkgName = pn
		} else if pn != pkgName {
			fail("%s: package %s, expected %s", n, pn, pkgName)
		}
		for k := range r.used {
			used[k] = true
		}
		resets = append(resets, r.resets...)
		points += r.points
		if !r.changed {
			continue
		}
		dst := filepath.Join(outdir, "instr_"+n)
		if err := os.WriteFile(dst, r.out, 0o644); err != nil {
			fail("%v", err)
		}
		replace[filepath.Join(pkgDir, n)] = dst
	}
	if points == 0 {
		fail("%s: nothing to instrument (no sync/atomic call, channel statement or non-blocking select found)", pkgDir)
	}
	shim := filepath.Join(outdir, "zz_verif_sched.go")
	if err := os.WriteFile(shim, []byte(shimSource(pkgName, used, resets)), 0o644); err != nil {
		fail("%v", err)
	}
	replace[filepath.Join(pkgDir, "zz_verif_sched.go")] = shim
	ov, _ := json.MarshalIndent(map[string]any{"Replace": replace}, "", " ")
	if err := os.WriteFile(filepath.Join(outdir, "overlay.json"), ov, 0o644); err != nil {
		fail("%v", err)
	}
	fmt.Printf("instrument: %s: %d schedule points in %d file(s); overlay %s\n", pkgDir, points, len(replace)-1, filepath.Join(outdir, "overlay.json"))
}

func instrumentFile(name string, src []byte) (*fileResult, string, error) {
	fset := token.NewFileSet()
	f, err := parser.ParseFile(fset, name, src, parser.ParseComments)
	if err != nil {
		return nil, "", err
	}
	res := &fileResult{used: map[string]bool{}}
	off := func(p token.Pos) int { return fset.Position(p).Offset }
	text := func(n ast.Node) string { return string(src[off(n.Pos()):off(n.End())]) }
	at := func(n ast.Node) string { return fset.Position(n.Pos()).String() }
	var sp []splice
	var firstErr error
	bad := func(n ast.Node, format string, a ...any) {
		if firstErr == nil {
			firstErr = fmt.Errorf("%s: %s", at(n), fmt.Sprintf(format, a...))
		}
	}

	// Package-level variables with an initialiser are state that outlives the
	// objects a harness creates per execution (a channel shared by all
	// instances, a free list, a counter). The shim gets VerifResetGlobals, which
	// assigns every initialiser again, so that each explored execution starts
	// from the same state. An initialiser that mentions an imported package
	// cannot be repeated in the shim file (its imports are not there): fine for a
	// value without identity, an error if it makes a channel.
	imported := map[string]bool{}
	for _, im := range f.Imports {
		p, _ := strconv.Unquote(im.Path.Value)
		n := p[strings.LastIndex(p, "/")+1:]
		if im.Name != nil {
			n = im.Name.Name
		}
		imported[n] = true
	}
	for _, d := range f.Decls {
		gd, ok := d.(*ast.GenDecl)
		if !ok || gd.Tok != token.VAR {
			continue
		}
		for _, spc := range gd.Specs {
			vs := spc.(*ast.ValueSpec)
			if len(vs.Values) == 0 {
				continue
			}
			usesImport, makesChan := false, false
			for _, v := range vs.Values {
				ast.Inspect(v, func(n ast.Node) bool {
					switch x := n.(type) {
					case *ast.SelectorExpr:
						if id, ok := x.X.(*ast.Ident); ok && imported[id.Name] && id.Obj == nil {
							usesImport = true
						}
					case *ast.ChanType:
						makesChan = true
					}
					return true
				})
			}
			if usesImport {
				if makesChan {
					bad(vs, "package-level variable whose initialiser makes a channel and mentions an imported package: cannot be reset between executions")
				}
				continue
			}
			var ls, rs []string
			for _, n := range vs.Names {
				ls = append(ls, n.Name)
			}
			for _, v := range vs.Values {
				rs = append(rs, text(v))
			}
			blank := true
			for _, l := range ls {
				if l != "_" {
					blank = false
				}
			}
			if !blank {
				res.resets = append(res.resets, strings.Join(ls, ", ")+" = "+strings.Join(rs, ", "))
			}
		}
	}

	// sync/atomic import
	atomicName := ""
	var atomicSpec *ast.ImportSpec
	for _, im := range f.Imports {
		p, _ := strconv.Unquote(im.Path.Value)
		if p != "sync/atomic" {
			continue
		}
		atomicSpec = im
		atomicName = "atomic"
		if im.Name != nil {
			atomicName = im.Name.Name
		}
	}

	// simple (side-effect free, re-evaluable) channel operand: identifiers and field selections
	var simple func(e ast.Expr) bool
	simple = func(e ast.Expr) bool {
		switch x := e.(type) {
		case *ast.Ident:
			return true
		case *ast.SelectorExpr:
			return simple(x.X)
		case *ast.ParenExpr:
			return simple(x.X)
		case *ast.StarExpr:
			return simple(x.X)
		}
		return false
	}
	unparen := func(e ast.Expr) ast.Expr {
		for {
			p, ok := e.(*ast.ParenExpr)
			if !ok {
				return e
			}
			e = p.X
		}
	}
	handledRecv := map[*ast.UnaryExpr]bool{}
	commOf := map[ast.Stmt]bool{} // statements that are the Comm of a select clause
	recvOf := func(s ast.Stmt) *ast.UnaryExpr {
		var e ast.Expr
		switch x := s.(type) {
		case *ast.ExprStmt:
			e = x.X
		case *ast.AssignStmt:
			if len(x.Rhs) == 1 {
				e = x.Rhs[0]
			}
		}
		if e == nil {
			return nil
		}
		if u, ok := unparen(e).(*ast.UnaryExpr); ok && u.Op == token.ARROW {
			return u
		}
		return nil
	}
	doList := func(list []ast.Stmt) {
		for _, s := range list {
			inner := s
			labelled := false
			if l, ok := s.(*ast.LabeledStmt); ok {
				inner, labelled = l.Stmt, true
			}
			switch x := inner.(type) {
			case *ast.SelectStmt:
				hasDefault := false
				for _, c := range x.Body.List {
					cc := c.(*ast.CommClause)
					if cc.Comm == nil {
						hasDefault = true
					} else {
						commOf[cc.Comm] = true
						if u := recvOf(cc.Comm); u != nil {
							handledRecv[u] = true
						}
					}
				}
				if !hasDefault {
					bad(x, "blocking select (no default clause) is not modelled")
					continue
				}
				if labelled {
					bad(x, "labelled select is not supported")
					continue
				}
				sp = append(sp, splice{off: off(x.Pos()), text: "verifYield(); "})
				res.points++
			case *ast.SendStmt:
				if labelled {
					bad(x, "labelled send statement is not supported")
					continue
				}
				if !simple(x.Chan) {
					bad(x, "send on a channel expression that cannot be re-evaluated")
					continue
				}
				ch := text(x.Chan)
				sp = append(sp, splice{off: off(x.Pos()), text: fmt.Sprintf("verifSendPoint(func() bool { return len(%s) < cap(%s) }, cap(%s)); ", ch, ch, ch)})
				res.points++
			default:
				u := recvOf(inner)
				if u == nil {
					continue
				}
				if labelled {
					bad(inner, "labelled receive statement is not supported")
					continue
				}
				if !simple(u.X) {
					bad(inner, "receive from a channel expression that cannot be re-evaluated")
					continue
				}
				handledRecv[u] = true
				ch := text(u.X)
				sp = append(sp, splice{off: off(inner.Pos()), text: fmt.Sprintf("verifRecvPoint(func() bool { return len(%s) > 0 }, cap(%s)); ", ch, ch)})
				res.points++
			}
		}
	}
	ast.Inspect(f, func(n ast.Node) bool {
		switch x := n.(type) {
		case *ast.BlockStmt:
			doList(x.List)
		case *ast.CaseClause:
			doList(x.Body)
		case *ast.CommClause:
			doList(x.Body)
		}
		return true
	})
	// second pass: atomics, and everything that must not occur
	rewritten := map[*ast.Ident]bool{}
	ast.Inspect(f, func(n ast.Node) bool {
		switch x := n.(type) {
		case *ast.CallExpr:
			if se, ok := x.Fun.(*ast.SelectorExpr); ok && atomicName != "" {
				if id, ok := se.X.(*ast.Ident); ok && id.Name == atomicName && id.Obj == nil {
					if _, known := sigs[se.Sel.Name]; !known {
						bad(x, "call of sync/atomic.%s is not supported by the shim", se.Sel.Name)
						return true
					}
					rewritten[id] = true
					res.used[se.Sel.Name] = true
					sp = append(sp, splice{off: off(id.Pos()), del: len(id.Name), text: "vatomic"})
					res.points++
				}
			}
		case *ast.SelectorExpr:
			// visited after its enclosing CallExpr (pre-order), so `rewritten` is up to date
			if id, ok := x.X.(*ast.Ident); ok && atomicName != "" && id.Name == atomicName && id.Obj == nil && !rewritten[id] {
				bad(x, "sync/atomic.%s used other than as a direct function call", x.Sel.Name)
			}
		case *ast.UnaryExpr:
			if x.Op == token.ARROW && !handledRecv[x] {
				bad(x, "channel receive nested inside an expression or statement header is not modelled")
			}
		case *ast.SendStmt:
			// sends that are not in a statement list or a select clause cannot occur in valid Go
		case *ast.GoStmt:
			bad(x, "go statement: goroutines started by the code under test are outside the scheduler")
		case *ast.RangeStmt:
			// a range over a channel cannot be recognised without types; flag the obvious spelling
			if u, ok := unparen(x.X).(*ast.UnaryExpr); ok && u.Op == token.ARROW {
				bad(x, "range over a received value")
			}
		}
		return true
	})
	if firstErr != nil {
		return nil, "", firstErr
	}
	if atomicSpec != nil && atomicName == "." {
		return nil, "", fmt.Errorf("%s: dot-import of sync/atomic is not supported", at(atomicSpec))
	}
	if atomicSpec != nil && atomicName != "_" && res.points > 0 {
		// every use was rewritten (or there was none): keep the import, blank-named, so the file still compiles
		if atomicSpec.Name != nil {
			sp = append(sp, splice{off: off(atomicSpec.Name.Pos()), del: len(atomicSpec.Name.Name), text: "_"})
		} else {
			sp = append(sp, splice{off: off(atomicSpec.Path.Pos()), text: "_ "})
		}
	}
	if res.points == 0 {
		return res, f.Name.Name, nil
	}
	sort.SliceStable(sp, func(i, j int) bool { return sp[i].off < sp[j].off })
	var out []byte
	pos := 0
	for _, s := range sp {
		if s.off < pos {
			return nil, "", fmt.Errorf("overlapping rewrites at offset %d", s.off)
		}
		out = append(out, src[pos:s.off]...)
		out = append(out, s.text...)
		pos = s.off + s.del
	}
	out = append(out, src[pos:]...)
	if _, err := parser.ParseFile(token.NewFileSet(), name, out, 0); err != nil {
		return nil, "", fmt.Errorf("instrumented copy does not parse: %v", err)
	}
	res.changed = true
	res.out = out
	return res, f.Name.Name, nil
}

func shimSource(pkg string, used map[string]bool, resets []string) string {
	var b strings.Builder
	needUnsafe := false
	var fns []string
	for k := range used {
		fns = append(fns, k)
		if strings.HasSuffix(k, "Pointer") {
			needUnsafe = true
		}
	}
	sort.Strings(fns)
	fmt.Fprintf(&b, "// Code generated by verifharness/cmd/instrument at check time. DO NOT EDIT.\n")
	fmt.Fprintf(&b, "// Added to the package through `go test -overlay`; never committed.\n\n")
	fmt.Fprintf(&b, "package %s\n\n", pkg)
	if len(fns) > 0 {
		fmt.Fprintf(&b, "import (\n\t\"sync/atomic\"\n")
		if needUnsafe {
			fmt.Fprintf(&b, "\t\"unsafe\"\n")
		}
		fmt.Fprintf(&b, ")\n\n")
	}
	fmt.Fprintf(&b, "// VerifResetGlobals assigns every package-level variable its initialiser again\n// (state that would otherwise leak from one explored execution into the next).\nfunc VerifResetGlobals() {\n")
	for _, r := range resets {
		fmt.Fprintf(&b, "\t%s\n", r)
	}
	fmt.Fprintf(&b, "}\n\n")
	b.WriteString(`// VerifYield, when set, is called immediately before every atomic operation and
// every non-blocking select of this package. nil = the code behaves as written.
var VerifYield func()

// VerifBlockOn, when set, is called immediately before every blocking channel
// statement: kind is "recv" or "send", chanCap the channel's capacity, ready
// reports whether the statement could complete without blocking. The hook must
// return only when ready() is true (and no other goroutine can run before the
// statement executes).
var VerifBlockOn func(kind string, chanCap int, ready func() bool)

func verifYield() {
	if f := VerifYield; f != nil {
		f()
	}
}

func verifRecvPoint(ready func() bool, chanCap int) {
	if f := VerifBlockOn; f != nil {
		f("recv", chanCap, ready)
	}
}

func verifSendPoint(ready func() bool, chanCap int) {
	if f := VerifBlockOn; f != nil {
		f("send", chanCap, ready)
	}
}

var _, _, _ = verifYield, verifRecvPoint, verifSendPoint

type vatomicT struct{}

var vatomic vatomicT

`)
	for _, fn := range fns {
		s := sigs[fn]
		if s.result == "" {
			fmt.Fprintf(&b, "func (vatomicT) %s(%s) { verifYield(); atomic.%s(%s) }\n", fn, s.params, fn, s.args)
		} else {
			fmt.Fprintf(&b, "func (vatomicT) %s(%s) %s { verifYield(); return atomic.%s(%s) }\n", fn, s.params, s.result, fn, s.args)
		}
	}
	return b.String()
}
