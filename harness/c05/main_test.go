package c05

import (
	"testing"

	"verifharness/evid"
)

func TestMain(m *testing.M) { evid.Main(m, "C05") }
