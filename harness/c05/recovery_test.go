// Package c05 decides property C05: after three duplicate ACKs the earliest
// unacknowledged segment is retransmitted without waiting for the timeout;
// otherwise it is retransmitted by timeout, never sooner than 200 ms after its
// previous transmission, with the timeout at least doubling and exactly one
// segment per timeout while the peer stays silent; at most 10 segments before
// the first ACK and (Reno) in flight <= 10 + acknowledged segments + duplicate
// ACKs received.
package c05

import (
	"fmt"
	"os"
	"sync"
	"sync/atomic"
	"testing"
	"time"

	tcpip "github.com/brewlin/net-protocol/protocol"
	"github.com/brewlin/net-protocol/stack"
	"pgregory.net/rapid"
	"verifharness/codec"
	"verifharness/evid"
	"verifharness/netsim"
	"verifharness/rawpeer"
)

type Case struct {
	Env        rawpeer.EnvCfg `json:"env"`
	MSS        int            `json:"mss"`
	TS         bool           `json:"ts"`
	NSeg       int            `json:"nseg"`         // data written = NSeg full segments
	AckDelayMs int            `json:"ack_delay_ms"` // the peer answers this late (sets the measured RTT)
	AckEvery   int            `json:"ack_every"`    // cumulative ACK every n-th in-order segment (1 or 2)
	Lost       []int          `json:"lost"`         // indices of segments whose first transmission the peer pretends not to receive
	WndJitter  bool           `json:"wnd_jitter"`   // the peer changes its window on every other duplicate ACK (those must not count)
	DupData    bool           `json:"dup_data"`     // every other duplicate ACK carries a byte of the peer's own data (such an ACK is not a duplicate)
	SACKBlocks bool           `json:"sack_blocks"`  // duplicate ACKs carry SACK blocks for what was received out of order
	SilentAt   int            `json:"silent_at"`    // after this many segments were received in order the peer goes silent (-1: never)
	Timeouts   int            `json:"timeouts"`     // number of timeouts to watch while silent
	// ZeroMs > 0: the silence starts with a closed window. Everything is acknowledged with
	// window 0 (the sender, with data still to send, arms its persist timer), ZeroMs later
	// the window reopens, the sender sends at once, and the peer says nothing more: that data
	// is timed by the retransmission timer from its own transmission, not by what is left
	// of the persist interval
	ZeroMs int `json:"zero_ms,omitempty"`
	// PlaceISS (C14 hosts this test with C05_FORCE_WRAP=1): the stack opens actively and its
	// initial sequence number is StackISS (hook H2), at most the data written below 2^31 or
	// 2^32: loss recovery, its "recover" mark and the timers meet the wrap point
	PlaceISS bool   `json:"place_iss,omitempty"`
	StackISS uint32 `json:"stack_iss,omitempty"`
	// SlowAcks > 0 (bursts of at most 10 segments, nothing lost): the peer lets the
	// whole burst arrive, then acknowledges SlowAcks segments one at a time,
	// SlowAckMs apart, and goes silent: the sender has sent nothing for a long
	// time when its timer finally fires
	SlowAcks  int `json:"slow_acks,omitempty"`
	SlowAckMs int `json:"slow_ack_ms,omitempty"`
	// AckDivide k > 1: the peer acknowledges newly received data in k pieces (ACK
	// division): acknowledgements that end inside a segment acknowledge no segment
	AckDivide int `json:"ack_divide,omitempty"`
}

type ackRec struct {
	t   time.Time
	ack uint32 // stream offset
	dup bool   // pure duplicate (same ack, same window, no data)
}

type emit struct {
	t        time.Time
	off, end uint32
	first    bool // first transmission of this offset
	silent   bool // emitted while the peer was in a silence phase (timer-driven)
}

func runOnce(c Case) *evid.Failure {
	env := rawpeer.NewEnv(c.Env)
	defer env.Close()
	var probeCount int64
	// the probe also notes what the sender had sent when it last left fast recovery: its
	// "recover" mark is set there (and on entry), and duplicate ACKs for holes below the mark
	// are deliberately ignored (RFC 6582, 3.2 step 2)
	var pmu sync.Mutex
	wasActive, haveExit, exitNxt := false, false, uint32(0)
	env.Stack.AddTCPProbe(func(st stack.TCPEndpointState) {
		atomic.AddInt64(&probeCount, 1)
		pmu.Lock()
		a := st.Sender.FastRecovery.Active
		if wasActive && !a {
			haveExit, exitNxt = true, uint32(st.Sender.SndNxt)
		}
		wasActive = a
		pmu.Unlock()
	})
	var s *netsim.Sock
	var p *rawpeer.Peer
	if c.PlaceISS {
		cs, serr := netsim.NewSock(env.Stack, 6, env.Net())
		if serr != nil {
			return nil
		}
		defer cs.EP.Close()
		p = env.Peer(0, 80, 12345)
		p.Wnd = 65535
		done := make(chan bool, 1)
		netsim.PlaceISSBegin(c.StackISS)
		go func() {
			e, ok := cs.ConnectNotify(tcpip.FullAddress{Addr: env.PeerAddr(), Port: 80}, 5*time.Second, nil)
			done <- ok && e == nil
		}()
		f, _, ok := env.Tap.Scan(0, 3*time.Second, func(f netsim.Frame) bool { return f.Pkt.L4Kind == "tcp" && f.Pkt.Flags&codec.SYN != 0 })
		netsim.PlaceISSEnd()
		if !ok {
			evid.Label("no-connection")
			return nil
		}
		p.StackPort = f.Pkt.SrcPort
		p.Cur = 0
		if !p.AcceptActive(rawpeer.SynOpts{MSS: c.MSS, WS: 7, TS: c.TS, SACKPerm: c.Env.SACK}, 3*time.Second) || !<-done {
			evid.Label("no-connection")
			return nil
		}
		if f.Pkt.Seq == c.StackISS {
			evid.Label("stack-iss-placed-next-to-a-wrap-point")
		}
		s = cs
	} else {
		l, s2, p2, err := env.Passive(80, 50000, 12345, rawpeer.SynOpts{MSS: c.MSS, WS: 7, TS: c.TS, SACKPerm: c.Env.SACK}, 65535)
		if l != nil {
			defer l.EP.Close()
		}
		if err != nil {
			evid.Label("no-connection")
			return nil
		}
		defer s2.EP.Close()
		s, p = s2, p2
	}
	payload := 0 // learned from the first data segment (min of the peer's MSS and what the MTU leaves)
	nseg := 0
	total := c.NSeg * c.MSS
	data := make([]byte, total)
	injected := int64(1) // the final ACK of the handshake went through the handshake, not the probe: count from data phase
	_ = injected
	go s.Write(data, 30*time.Second)

	var acks []ackRec
	var emits []emit
	seen := map[uint32]int{} // transmissions per offset
	lostLeft := map[int]int{}
	for _, i := range c.Lost {
		lostLeft[i] = 1
	}
	var have []bool
	edge := 0 // segments received in order
	sinceAck := 0
	lastAckVal, lastWnd := uint32(0), uint16(65535)
	haveLastAck := false
	nDataInjected := 0
	ackOverride := uint32(0)
	zeroWnd := false
	sendAck := func(forceDup bool) {
		ackOff := uint32(edge * payload)
		if ackOff > uint32(total) {
			ackOff = uint32(total)
		}
		if ackOverride > 0 {
			ackOff = ackOverride
		}
		wnd := uint16(65535)
		if c.WndJitter && forceDup && len(acks)%2 == 1 {
			wnd = 65000
		}
		if zeroWnd {
			wnd = 0
		}
		p.RcvNxt = p.IRS + 1 + ackOff
		p.Wnd = wnd
		seg := codec.TCPSeg{Seq: p.SndNxt, Ack: p.RcvNxt, Flags: codec.ACK, Wnd: wnd}
		if c.SACKBlocks && p.StackSACK {
			var blocks [][2]uint32
			for i := edge + 1; i < nseg && len(blocks) < 3; i++ {
				if have[i] {
					j := i
					for j+1 < nseg && have[j+1] {
						j++
					}
					blocks = append(blocks, [2]uint32{p.IRS + 1 + uint32(i*payload), p.IRS + 1 + uint32((j+1)*payload)})
					i = j
				}
			}
			if len(blocks) > 0 {
				seg.Opts = append(append(codec.OptNOP(), codec.OptNOP()...), codec.OptSACK(blocks)...)
				if p.UseTS {
					p.TSVal++
					seg.Opts = append(seg.Opts, append(append(codec.OptNOP(), codec.OptNOP()...), codec.OptTS(p.TSVal, p.TSEcr)...)...)
				}
			}
		}
		if c.DupData && forceDup && len(acks)%2 == 0 {
			seg.Payload = []byte{byte(len(acks))}
			seg.Flags |= codec.PSH
		}
		dup := haveLastAck && ackOff == lastAckVal && wnd == lastWnd && len(seg.Payload) == 0
		acks = append(acks, ackRec{time.Now(), ackOff, dup})
		lastAckVal, lastWnd, haveLastAck = ackOff, wnd, true
		p.Send(seg)
		p.SndNxt += uint32(len(seg.Payload))
		nDataInjected++
	}
	maxAckBefore := func(t time.Time) (uint32, int) {
		var a uint32
		d := 0
		for _, r := range acks {
			if r.t.After(t) {
				break
			}
			if r.ack > a {
				a = r.ack
			}
			if r.dup {
				d++
			}
		}
		return a, d
	}
	var maxEnd, recoverPoint uint32
	silent := false
	silenceDone := c.SilentAt < 0
	var silenceStart time.Time
	timeoutsSeen := 0
	var lastSilentGap time.Duration
	fastRtxChecked := false
	anyRtx := false
	var fail *evid.Failure
	deadline := time.Now().Add(25 * time.Second)
	firstAckSent := false
	slowDone := false
	for time.Now().Before(deadline) && fail == nil {
		wait := 400 * time.Millisecond
		if silent {
			wait = 200*time.Millisecond<<uint(timeoutsSeen+1) + 2*time.Second
			if timeoutsSeen > 0 && 2*lastSilentGap+2*time.Second > wait {
				wait = 2*lastSilentGap + 2*time.Second
			}
		}
		fr, ok := p.Next(wait)
		if !ok {
			if nseg > 0 && edge >= nseg {
				break
			}
			if silent {
				// "otherwise it is retransmitted by timeout": with the peer silent and data outstanding a
				// retransmission of the first unacknowledged segment is due - the first one within the
				// retransmission timeout (at most the initial 1 s; 2.4 s were waited), each later one at most
				// twice the previously observed gap after the previous one (2 s more were waited)
				if w := uint32(edge * payload); w < maxEnd && (timeoutsSeen == 0 || lastSilentGap > 0) {
					return evid.Failf("timeout-missing", "the peer has been silent for %v (since the stack's last emission %v) with the segment at offset %d unacknowledged (sent up to %d), %d timeout retransmission(s) seen so far, yet no further retransmission came\n%s", time.Since(silenceStart).Round(time.Millisecond), wait, w, maxEnd, timeoutsSeen, render(emits, acks, silenceStart))
				}
				evid.Label("silence:gave-up-waiting")
				silent, silenceDone = false, true
			}
			// nudge: re-acknowledge what we have so the transfer finishes
			sendAck(true)
			continue
		}
		k := fr.Pkt
		if k.Flags&codec.RST != 0 {
			break
		}
		if len(k.Payload) == 0 {
			continue
		}
		off := k.Seq - (p.IRS + 1)
		end := off + uint32(len(k.Payload))
		if payload == 0 {
			payload = len(k.Payload)
			nseg = (total + payload - 1) / payload
			have = make([]bool, nseg+1)
			for i := range c.Lost {
				_ = i
			}
		}
		seen[off]++
		e := emit{t: fr.T, off: off, end: end, first: seen[off] == 1, silent: silent}
		emits = append(emits, e)
		isNew := end > maxEnd
		if isNew {
			maxEnd = end
		}
		if !e.first {
			recoverPoint = maxEnd // a retransmission: the sender's "recover" mark is at most what it had sent by now
		}
		// (a) at most 10 segments before the first ACK
		if !firstAckSent {
			n := 0
			for _, x := range emits {
				if x.first {
					n++
				}
			}
			if n > 10 {
				return evid.Failf("initial-window", "%d data segments were sent before the peer's first ACK (limit 10)", n)
			}
		}
		// (b) Reno: segments in flight <= 10 + acknowledged segments + duplicate ACKs received
		if isNew && c.Env.CC != "cubic" {
			a, d := maxAckBefore(fr.T)
			inflight := (int(maxEnd-a) + payload - 1) / payload
			ackedSegs := int(a) / payload
			if inflight > 10+ackedSegs+d {
				return evid.Failf("cwnd-exceeded", "%d segments in flight (sent up to %d, highest ACK sent %d) but only %d segments were acknowledged and %d duplicate ACKs sent so far: limit %d", inflight, maxEnd, a, ackedSegs, d, 10+ackedSegs+d)
			}
		}
		// "otherwise by timeout, never sooner than 200 ms": the first retransmission of a
		// connection can only be a fast retransmit (which needs three pure duplicate ACKs
		// for that segment) or a timeout (>= 200 ms after the previous transmission)
		if !e.first && !anyRtx {
			anyRtx = true
			pure := 0
			for _, r := range acks {
				if !r.t.After(fr.T) && r.dup && r.ack == off {
					pure++
				}
			}
			var prevT time.Time
			for i := len(emits) - 2; i >= 0; i-- {
				if emits[i].off == off {
					prevT = emits[i].t
					break
				}
			}
			if pure < 3 && !prevT.IsZero() && fr.T.Sub(prevT) < 200*time.Millisecond {
				return evid.Failf("early-retransmit", "offset %d was retransmitted %v after its previous transmission although only %d pure duplicate ACKs for it had been sent (fast retransmit needs 3, a timeout >= 200 ms)\n%s", off, fr.T.Sub(prevT), pure, render(emits, acks, time.Time{}))
			}
		}
		// (d)+(e) silence phase: every emission is a timeout retransmission of the first unacknowledged segment
		if silent {
			w := uint32(edge * payload)
			if off != w {
				return evid.Failf("timeout-wrong-segment", "while the peer was silent the stack sent the segment at offset %d, not the first unacknowledged one at %d\n%s", off, w, render(emits, acks, silenceStart))
			}
			// previous transmission of W
			var prev *emit
			for i := len(emits) - 2; i >= 0; i-- {
				if emits[i].off == w {
					prev = &emits[i]
					break
				}
			}
			timeoutsSeen++
			if prev != nil {
				gap := fr.T.Sub(prev.t)
				lastSilentGap = 0
				if prev.silent {
					lastSilentGap = gap
				}
				switch {
				case prev.silent:
					// k-th subsequent gap >= 200ms * 2^(k-1)
					min := 200 * time.Millisecond << uint(timeoutsSeen-2)
					if gap < min {
						return evid.Failf("timeout-backoff", "timeout %d fired %v after the previous one; at least %v required (base 200 ms, doubling)\n%s", timeoutsSeen, gap, min, render(emits, acks, silenceStart))
					}
				case prev.first:
					if gap < 200*time.Millisecond {
						return evid.Failf("timeout-too-early", "the first timeout retransmission came %v after the segment's original transmission (minimum 200 ms)\n%s", gap, render(emits, acks, silenceStart))
					}
				default:
					evid.Label("excluded:first-timeout-after-ack-driven-retransmission")
				}
			}
			if timeoutsSeen >= c.Timeouts {
				silent, silenceDone = false, true
				evid.Label(fmt.Sprintf("silence:watched-%d-timeouts", timeoutsSeen))
				// resume: fall through to normal receive processing of this segment
			} else {
				continue
			}
		}
		// --- receiver behaviour
		idx := int(off) / payload
		if int(off)%payload != 0 || idx >= nseg {
			continue
		}
		if lostLeft[idx] > 0 {
			lostLeft[idx]--
			continue
		}
		wasEdge := edge
		have[idx] = true
		for edge < nseg && have[edge] {
			edge++
		}
		if c.SlowAcks > 0 && !slowDone && nseg <= 10 && len(c.Lost) == 0 {
			if edge < nseg {
				continue // no acknowledgement yet: let the whole burst arrive
			}
			slowDone = true
			k := c.SlowAcks
			if k > nseg-2 {
				k = nseg - 2
			}
			if k < 1 {
				// too short a burst for this variant: acknowledge and go on as usual
				sendAck(false)
				firstAckSent = true
				continue
			}
			for j := 1; j <= k; j++ {
				time.Sleep(time.Duration(c.SlowAckMs) * time.Millisecond)
				edge = j
				sendAck(false)
				firstAckSent = true
			}
			// what the stack sent meanwhile (a timeout, if the spacing exceeds its timer) is not judged
			env.Tap.Quiesce(5*time.Millisecond, 200*time.Millisecond)
			for {
				f2, ok2 := p.Next(0)
				if !ok2 {
					break
				}
				if len(f2.Pkt.Payload) > 0 {
					o2 := f2.Pkt.Seq - (p.IRS + 1)
					seen[o2]++
					emits = append(emits, emit{t: f2.T, off: o2, end: o2 + uint32(len(f2.Pkt.Payload)), first: false})
					anyRtx = true
					recoverPoint = maxEnd
				}
			}
			for i := k; i < len(have); i++ {
				have[i] = false // not acknowledged: they will come again
			}
			evid.Label("slow-acks-then-silence")
			silent, silenceStart, timeoutsSeen = true, time.Now(), 0
			if c.Timeouts < 2 {
				c.Timeouts = 2
			}
			continue
		}
		if !silenceDone && c.SilentAt >= 0 && edge >= c.SilentAt && edge < nseg {
			// acknowledge what we have, wait until the stack has processed everything we sent and is quiet, then stay silent
			if c.AckDelayMs > 0 {
				time.Sleep(time.Duration(c.AckDelayMs) * time.Millisecond)
			}
			closing := c.ZeroMs > 0 && uint32(edge*payload) == maxEnd && int(maxEnd) < total
			zeroWnd = closing
			sendAck(false)
			zeroWnd = false
			firstAckSent = true
			syncDeadline := time.Now().Add(3 * time.Second)
			for atomic.LoadInt64(&probeCount) < int64(nDataInjected) && time.Now().Before(syncDeadline) {
				time.Sleep(time.Millisecond)
			}
			env.Tap.Quiesce(40*time.Millisecond, 2*time.Second)
			// consume what was emitted in response, classifying it as ack-driven
			for {
				f2, ok2 := p.Next(0)
				if !ok2 {
					break
				}
				if len(f2.Pkt.Payload) > 0 {
					o2 := f2.Pkt.Seq - (p.IRS + 1)
					seen[o2]++
					e2 := emit{t: f2.T, off: o2, end: o2 + uint32(len(f2.Pkt.Payload)), first: seen[o2] == 1}
					emits = append(emits, e2)
					if e2.end > maxEnd {
						maxEnd = e2.end
					}
					if !e2.first {
						recoverPoint = maxEnd
					}
					i2 := int(o2) / payload
					if int(o2)%payload == 0 && i2 < nseg && lostLeft[i2] == 0 {
						// received but deliberately not acknowledged during the silence
						_ = i2
					}
				}
			}
			if closing {
				// the window has been closed for the quiet wait plus ZeroMs; reopen it and collect what the sender sends at once
				time.Sleep(time.Duration(c.ZeroMs) * time.Millisecond)
				sendAck(false)
				env.Tap.Quiesce(10*time.Millisecond, 300*time.Millisecond)
				for {
					f2, ok2 := p.Next(0)
					if !ok2 {
						break
					}
					if len(f2.Pkt.Payload) > 0 {
						o2 := f2.Pkt.Seq - (p.IRS + 1)
						seen[o2]++
						e2 := emit{t: f2.T, off: o2, end: o2 + uint32(len(f2.Pkt.Payload)), first: seen[o2] == 1}
						emits = append(emits, e2)
						if e2.end > maxEnd {
							maxEnd = e2.end
						}
						if !e2.first {
							recoverPoint = maxEnd
						}
					}
				}
				evid.Label("silence:after-a-closed-window-reopened")
			}
			if uint32(edge*payload) < maxEnd {
				silent, silenceStart, timeoutsSeen = true, time.Now(), 0
			} else {
				silenceDone = true // nothing is outstanding: no timeout can be observed
			}
			continue
		}
		if edge == wasEdge {
			// out of order: duplicate ACK
			if c.AckDelayMs > 0 {
				time.Sleep(time.Duration(c.AckDelayMs) * time.Millisecond / 4)
			}
			sendAck(true)
			firstAckSent = true
			// (c) third pure duplicate: the missing segment must be retransmitted promptly
			ndup := 0
			// duplicates count only without intervening segments (RFC 5681): an ACK that
			// carries data or changes the window resets the count
			for i := len(acks) - 1; i >= 0 && acks[i].ack == uint32(edge*payload) && acks[i].dup; i-- {
				ndup++
			}
			// a later loss episode calls for a fast retransmission again, provided the hole lies
			// beyond everything that had been sent when the last retransmission (of any kind)
			// went out: below that mark NewReno deliberately ignores duplicate ACKs (RFC 6582, 3.2 step 2)
			pmu.Lock()
			exited, exitRel, inRecovery := haveExit, exitNxt-(p.IRS+1), wasActive
			pmu.Unlock()
			later := fastRtxChecked && recoverPoint > 0 && uint32(edge*payload) >= recoverPoint && exited && !inRecovery && uint32(edge*payload) >= exitRel
			if ndup == 3 && edge < nseg && (!fastRtxChecked || later) && timeoutsSeen == 0 && silenceDone == (c.SilentAt < 0) {
				if later {
					evid.Label("fast-retransmit:later-episode-judged")
				}
				fastRtxChecked = true
				t3 := acks[len(acks)-1].t
				w := uint32(edge * payload)
				f3, _, ok3 := env.Tap.Scan(p.Cur, 150*time.Millisecond, func(f netsim.Frame) bool {
					return p.Mine(f) && len(f.Pkt.Payload) > 0 && f.Pkt.Seq-(p.IRS+1) == w
				})
				if !ok3 {
					return evid.Failf("fast-retransmit-missing", "three duplicate ACKs for offset %d were sent (third at %s) but the segment was not retransmitted within 150 ms (a timeout would take >= 200 ms)\n%s", w, t3.Format("15:04:05.000"), render(emits, acks, time.Time{}))
				}
				evid.Label("fast-retransmit-seen")
				_ = f3
			}
			continue
		}
		sinceAck += edge - wasEdge
		if sinceAck >= c.AckEvery || edge >= nseg || edge-wasEdge > 1 {
			if c.AckDelayMs > 0 {
				time.Sleep(time.Duration(c.AckDelayMs) * time.Millisecond)
			}
			if c.AckDivide > 1 && haveLastAck {
				// ACK division: the same data acknowledged in pieces
				to := uint32(edge * payload)
				if to > uint32(total) {
					to = uint32(total)
				}
				for j := 1; j < c.AckDivide; j++ {
					if part := lastAckVal + (to-lastAckVal)*uint32(j)/uint32(c.AckDivide); part > lastAckVal && part < to {
						ackOverride = part
						sendAck(false)
						evid.Label("ack-division:partial-ack")
					}
				}
				ackOverride = 0
			}
			sendAck(false)
			firstAckSent = true
			sinceAck = 0
		}
	}
	nt := false
	for _, l := range []string{} {
		_ = l
	}
	if fastRtxChecked || timeoutsSeen >= 2 {
		nt = true
	}
	if nt {
		evid.NonTrivialKey(fmt.Sprintf("%+v", c))
		evid.Sample(map[bool]string{true: "timeouts", false: "fast-retransmit"}[timeoutsSeen >= 2], c)
	}
	if edge < nseg {
		evid.Label("incomplete")
	}
	return fail
}

func render(emits []emit, acks []ackRec, silence time.Time) string {
	s := ""
	var t0 time.Time
	if len(emits) > 0 {
		t0 = emits[0].t
	}
	type ev struct {
		t time.Time
		s string
	}
	var evs []ev
	for _, e := range emits {
		evs = append(evs, ev{e.t, fmt.Sprintf("<- data [%d,%d) first=%v silent=%v", e.off, e.end, e.first, e.silent)})
	}
	for _, a := range acks {
		evs = append(evs, ev{a.t, fmt.Sprintf("-> ack %d dup=%v", a.ack, a.dup)})
	}
	if !silence.IsZero() {
		evs = append(evs, ev{silence, "== peer silent from here"})
	}
	for i := range evs {
		for j := i + 1; j < len(evs); j++ {
			if evs[j].t.Before(evs[i].t) {
				evs[i], evs[j] = evs[j], evs[i]
			}
		}
	}
	if len(evs) > 70 {
		evs = evs[len(evs)-70:]
	}
	for _, e := range evs {
		s += fmt.Sprintf("  +%9.2fms %s\n", float64(e.t.Sub(t0).Microseconds())/1000, e.s)
	}
	return s
}

// timing-sensitive verdicts are confirmed by re-running the case
var timingSigs = map[string]bool{"early-retransmit": true, "fast-retransmit-missing": true, "timeout-too-early": true, "timeout-backoff": true, "timeout-wrong-segment": true, "timeout-missing": true}

func runCase(c Case) *evid.Failure {
	f := runOnce(c)
	if f == nil || !timingSigs[f.Sig] {
		return f
	}
	for i := 0; i < 2; i++ {
		if g := runOnce(c); g == nil || g.Sig != f.Sig {
			evid.Unconfirmed()
			evid.Label("unconfirmed:" + f.Sig)
			return nil
		}
	}
	return f
}

func genCase(rt *rapid.T) Case {
	var c Case
	c.Env.V6 = rapid.Bool().Draw(rt, "v6")
	c.Env.SACK = rapid.Bool().Draw(rt, "sack")
	c.Env.CC = rapid.SampledFrom([]string{"reno", "reno", "cubic"}).Draw(rt, "cc")
	c.Env.MTU = 1500
	c.Env.SndBuf = 1 << 20
	c.MSS = rapid.SampledFrom([]int{500, 1000, 1400}).Draw(rt, "mss")
	c.TS = rapid.Bool().Draw(rt, "ts")
	c.NSeg = rapid.OneOf(rapid.IntRange(1, 12), rapid.IntRange(10, 60)).Draw(rt, "nseg")
	c.AckDelayMs = rapid.SampledFrom([]int{0, 0, 1, 5, 20, 50}).Draw(rt, "ack_delay")
	c.AckEvery = rapid.IntRange(1, 2).Draw(rt, "ack_every")
	c.WndJitter = rapid.IntRange(0, 4).Draw(rt, "wnd_jitter") == 0
	c.SACKBlocks = rapid.Bool().Draw(rt, "sack_blocks")
	c.DupData = rapid.IntRange(0, 4).Draw(rt, "dup_data") == 0
	c.AckDivide = rapid.SampledFrom([]int{0, 0, 0, 2, 4, 10}).Draw(rt, "ack_divide")
	mode := rapid.SampledFrom([]string{"loss", "loss", "silence", "silence", "both", "slowacks", "episodes", "episodes"}).Draw(rt, "mode")
	c.SilentAt = -1
	if mode == "slowacks" {
		c.NSeg = rapid.IntRange(4, 10).Draw(rt, "slow_nseg")
		c.SlowAcks = rapid.IntRange(1, c.NSeg-2).Draw(rt, "slow_acks")
		c.SlowAckMs = rapid.SampledFrom([]int{60, 120, 160, 190}).Draw(rt, "slow_ack_ms")
		c.Timeouts = 2
		return c
	}
	if mode == "episodes" {
		// several loss episodes far apart on one connection: each later hole lies in data first
		// sent after the previous recovery was over, so each calls for a fast retransmission
		c.NSeg = rapid.IntRange(45, 80).Draw(rt, "ep_nseg")
		c.AckEvery, c.AckDivide, c.DupData, c.WndJitter = 1, 0, false, false
		c.AckDelayMs = rapid.SampledFrom([]int{0, 1}).Draw(rt, "ep_ack_delay")
		at := rapid.IntRange(1, 6).Draw(rt, "ep_first")
		for at < c.NSeg-3 && len(c.Lost) < 3 {
			c.Lost = append(c.Lost, at)
			at += rapid.IntRange(22, 36).Draw(rt, "ep_gap")
		}
		mode = "loss-given"
	}
	if mode != "silence" && mode != "loss-given" {
		n := rapid.IntRange(1, 2).Draw(rt, "nlost")
		for i := 0; i < n; i++ {
			c.Lost = append(c.Lost, rapid.IntRange(0, c.NSeg-1).Draw(rt, "lost"))
		}
	}
	if mode != "loss" && mode != "loss-given" {
		c.SilentAt = rapid.IntRange(0, c.NSeg-1).Draw(rt, "silent_at")
		c.ZeroMs = rapid.SampledFrom([]int{0, 0, 30, 60, 100}).Draw(rt, "zero_ms")
		c.Timeouts = rapid.IntRange(2, 4).Draw(rt, "timeouts")
	}
	if forceWrap {
		c.PlaceISS = true
		total := c.NSeg * c.MSS
		// (mostly early in the transfer, so that the loss episodes follow the crossing)
		k := uint32(rapid.OneOf(rapid.IntRange(0, total/8+2), rapid.IntRange(0, total+2)).Draw(rt, "iss_k"))
		if rapid.Bool().Draw(rt, "iss_32") {
			c.StackISS = 0 - k
		} else {
			c.StackISS = 1<<31 - k
		}
	}
	return c
}

var forceWrap = os.Getenv("C05_FORCE_WRAP") == "1"

func TestRecovery(t *testing.T) {
	evid.Run(t, evid.Spec[Case]{Name: "recovery", Gen: genCase, Run: runCase})
}
