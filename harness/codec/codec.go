// Package codec is an independent (RFC-derived) encoder/decoder for the wire
// formats the stack under test speaks. It imports nothing from the repository
// under test, so that it can serve as the oracle for emitted frames and as the
// builder of injected ones.
//
// RFC 791 (IPv4), 8200 (IPv6 + fragment header), 792 / 4443 / 4861 (ICMP, NDP),
// 768 (UDP), 9293 + 7323 + 2018 (TCP and options), 826 (ARP), 1071 (checksum),
// Ethernet II.
package codec

import (
	"encoding/binary"
	"fmt"
)

// Sum1071 returns the 16-bit one's-complement sum (not complemented) of data
// added to an initial partial sum, as defined by RFC 1071: big-endian 16-bit
// words, an odd trailing byte padded with a zero on the right, end-around carry.
func Sum1071(data []byte, initial uint16) uint16 {
	var s uint64 = uint64(initial)
	n := len(data)
	for i := 0; i+1 < n; i += 2 {
		s += uint64(data[i])<<8 | uint64(data[i+1])
	}
	if n%2 == 1 {
		s += uint64(data[n-1]) << 8
	}
	for s>>16 != 0 {
		s = (s & 0xffff) + (s >> 16)
	}
	return uint16(s)
}

// EtherTypes / protocol numbers.
const (
	EtherIPv4 = 0x0800
	EtherARP  = 0x0806
	EtherIPv6 = 0x86dd

	ProtoICMP   = 1
	ProtoTCP    = 6
	ProtoUDP    = 17
	ProtoICMPv6 = 58
	ProtoFrag6  = 44
)

// TCP flags.
const (
	FIN = 1
	SYN = 2
	RST = 4
	PSH = 8
	ACK = 16
	URG = 32
)

// ---------------------------------------------------------------------------
// Builders

// IPv4Hdr are the fields of an IPv4 header a script may want to control.
type IPv4Hdr struct {
	Src, Dst []byte // 4 bytes each
	Proto    uint8
	ID       uint16
	DF, MF   bool
	FragOff  int // in bytes (multiple of 8)
	TTL      uint8
	TOS      uint8
	Options  []byte // multiple of 4 bytes
	// Overrides for hostile packets (0 / nil = computed).
	TotalLenOverride *uint16
	IHLOverride      *uint8
	BadChecksum      bool
}

func BuildIPv4(h IPv4Hdr, payload []byte) []byte {
	ihl := 20 + len(h.Options)
	b := make([]byte, ihl+len(payload))
	b[0] = 0x40 | uint8(ihl/4)
	if h.IHLOverride != nil {
		b[0] = 0x40 | (*h.IHLOverride & 0xf)
	}
	b[1] = h.TOS
	tl := uint16(len(b))
	if h.TotalLenOverride != nil {
		tl = *h.TotalLenOverride
	}
	binary.BigEndian.PutUint16(b[2:], tl)
	binary.BigEndian.PutUint16(b[4:], h.ID)
	fo := uint16(h.FragOff / 8)
	if h.DF {
		fo |= 0x4000
	}
	if h.MF {
		fo |= 0x2000
	}
	binary.BigEndian.PutUint16(b[6:], fo)
	ttl := h.TTL
	if ttl == 0 {
		ttl = 64
	}
	b[8] = ttl
	b[9] = h.Proto
	copy(b[12:16], h.Src)
	copy(b[16:20], h.Dst)
	copy(b[20:], h.Options)
	hl := ihl
	if hl > len(b) {
		hl = len(b)
	}
	ck := ^Sum1071(b[:hl], 0)
	if h.BadChecksum {
		ck ^= 0x5555
	}
	binary.BigEndian.PutUint16(b[10:], ck)
	copy(b[ihl:], payload)
	return b
}

type IPv6Hdr struct {
	Src, Dst   []byte // 16 bytes
	NextHeader uint8
	HopLimit   uint8
	TC         uint8
	Flow       uint32
	PayloadLenOverride *uint16
}

func BuildIPv6(h IPv6Hdr, payload []byte) []byte {
	b := make([]byte, 40+len(payload))
	binary.BigEndian.PutUint32(b[0:], 6<<28|uint32(h.TC)<<20|(h.Flow&0xfffff))
	pl := uint16(len(payload))
	if h.PayloadLenOverride != nil {
		pl = *h.PayloadLenOverride
	}
	binary.BigEndian.PutUint16(b[4:], pl)
	b[6] = h.NextHeader
	hl := h.HopLimit
	if hl == 0 {
		hl = 64
	}
	b[7] = hl
	copy(b[8:24], h.Src)
	copy(b[24:40], h.Dst)
	copy(b[40:], payload)
	return b
}

// PseudoSum returns the partial sum of the IPv4/IPv6 pseudo header.
func PseudoSum(src, dst []byte, proto uint8, l4len int) uint16 {
	var ph []byte
	if len(src) == 4 {
		ph = make([]byte, 12)
		copy(ph[0:], src)
		copy(ph[4:], dst)
		ph[9] = proto
		binary.BigEndian.PutUint16(ph[10:], uint16(l4len))
	} else {
		ph = make([]byte, 40)
		copy(ph[0:], src)
		copy(ph[16:], dst)
		binary.BigEndian.PutUint32(ph[32:], uint32(l4len))
		ph[39] = proto
	}
	return Sum1071(ph, 0)
}

// TCPSeg describes a TCP segment to build.
type TCPSeg struct {
	SrcPort, DstPort uint16
	Seq, Ack         uint32
	Flags            uint8
	Wnd              uint16
	Urg              uint16
	Opts             []byte // raw option bytes; padded with zeros (EOL) to 4
	Payload          []byte
	DataOffOverride  *uint8 // raw nibble
	BadChecksum      bool
}

func BuildTCP(src, dst []byte, s TCPSeg) []byte {
	opts := s.Opts
	for len(opts)%4 != 0 {
		opts = append(opts, 0)
	}
	hl := 20 + len(opts)
	b := make([]byte, hl+len(s.Payload))
	binary.BigEndian.PutUint16(b[0:], s.SrcPort)
	binary.BigEndian.PutUint16(b[2:], s.DstPort)
	binary.BigEndian.PutUint32(b[4:], s.Seq)
	binary.BigEndian.PutUint32(b[8:], s.Ack)
	b[12] = uint8(hl/4) << 4
	if s.DataOffOverride != nil {
		b[12] = *s.DataOffOverride << 4
	}
	b[13] = s.Flags
	binary.BigEndian.PutUint16(b[14:], s.Wnd)
	binary.BigEndian.PutUint16(b[18:], s.Urg)
	copy(b[20:], opts)
	copy(b[hl:], s.Payload)
	proto := uint8(ProtoTCP)
	ck := ^Sum1071(b, PseudoSum(src, dst, proto, len(b)))
	if s.BadChecksum {
		ck ^= 0x1111
	}
	binary.BigEndian.PutUint16(b[16:], ck)
	return b
}

// TCP option builders.
func OptMSS(v uint16) []byte       { return []byte{2, 4, byte(v >> 8), byte(v)} }
func OptWS(shift uint8) []byte     { return []byte{3, 3, shift} }
func OptSACKPerm() []byte          { return []byte{4, 2} }
func OptNOP() []byte               { return []byte{1} }
func OptTS(val, ecr uint32) []byte {
	b := []byte{8, 10, 0, 0, 0, 0, 0, 0, 0, 0}
	binary.BigEndian.PutUint32(b[2:], val)
	binary.BigEndian.PutUint32(b[6:], ecr)
	return b
}
func OptSACK(blocks [][2]uint32) []byte {
	b := []byte{5, byte(2 + 8*len(blocks))}
	for _, bl := range blocks {
		var x [8]byte
		binary.BigEndian.PutUint32(x[0:], bl[0])
		binary.BigEndian.PutUint32(x[4:], bl[1])
		b = append(b, x[:]...)
	}
	return b
}

func BuildUDP(src, dst []byte, sp, dp uint16, payload []byte, withChecksum bool) []byte {
	b := make([]byte, 8+len(payload))
	binary.BigEndian.PutUint16(b[0:], sp)
	binary.BigEndian.PutUint16(b[2:], dp)
	binary.BigEndian.PutUint16(b[4:], uint16(len(b)))
	copy(b[8:], payload)
	if withChecksum {
		ck := ^Sum1071(b, PseudoSum(src, dst, ProtoUDP, len(b)))
		if ck == 0 {
			ck = 0xffff
		}
		binary.BigEndian.PutUint16(b[6:], ck)
	}
	return b
}

// BuildICMPv4Echo builds an echo request (typ 8) or reply (typ 0).
func BuildICMPv4Echo(typ uint8, id, seq uint16, payload []byte) []byte {
	b := make([]byte, 8+len(payload))
	b[0] = typ
	binary.BigEndian.PutUint16(b[4:], id)
	binary.BigEndian.PutUint16(b[6:], seq)
	copy(b[8:], payload)
	binary.BigEndian.PutUint16(b[2:], ^Sum1071(b, 0))
	return b
}

// BuildICMPv6 builds an ICMPv6 message with the given type/code and body
// (everything after the 4-byte type/code/checksum header).
func BuildICMPv6(src, dst []byte, typ, code uint8, body []byte) []byte {
	b := make([]byte, 4+len(body))
	b[0], b[1] = typ, code
	copy(b[4:], body)
	binary.BigEndian.PutUint16(b[2:], ^Sum1071(b, PseudoSum(src, dst, ProtoICMPv6, len(b))))
	return b
}

func BuildICMPv6Echo(src, dst []byte, typ uint8, id, seq uint16, payload []byte) []byte {
	body := make([]byte, 4+len(payload))
	binary.BigEndian.PutUint16(body[0:], id)
	binary.BigEndian.PutUint16(body[2:], seq)
	copy(body[4:], payload)
	return BuildICMPv6(src, dst, typ, 0, body)
}

// ARP op codes.
const (
	ARPRequest = 1
	ARPReply   = 2
)

func BuildARP(op uint16, sha, spa, tha, tpa []byte) []byte {
	b := make([]byte, 28)
	binary.BigEndian.PutUint16(b[0:], 1)      // Ethernet
	binary.BigEndian.PutUint16(b[2:], 0x0800) // IPv4
	b[4], b[5] = 6, 4
	binary.BigEndian.PutUint16(b[6:], op)
	copy(b[8:14], sha)
	copy(b[14:18], spa)
	copy(b[18:24], tha)
	copy(b[24:28], tpa)
	return b
}

func BuildEth(dst, src []byte, etherType uint16, payload []byte) []byte {
	b := make([]byte, 14+len(payload))
	copy(b[0:6], dst)
	copy(b[6:12], src)
	binary.BigEndian.PutUint16(b[12:], etherType)
	copy(b[14:], payload)
	return b
}

// ---------------------------------------------------------------------------
// Decoder

// TCPOption is one parsed TCP option.
type TCPOption struct {
	Kind uint8
	Data []byte
}

// Packet is the decoded form of one frame. Errs lists everything that is not
// well-formed; an empty list means the frame passed every check that applies.
type Packet struct {
	Errs []string

	// Link layer (only when decoded with DecodeEth).
	HasEth         bool
	EthDst, EthSrc []byte
	EtherType      uint16

	// Network layer.
	L3       string // "ipv4", "ipv6", "arp"
	Src, Dst []byte
	Proto    uint8 // transport protocol (after IPv6 fragment header)
	TTL      uint8
	IPID     uint16
	DF, MF   bool
	FragOff  int
	IsFrag   bool
	IPHdrLen int
	IPTotal  int // total length of the IP packet
	L4       []byte

	// ARP.
	ARPOp                  uint16
	ARPSHA, ARPSPA         []byte
	ARPTHA, ARPTPA         []byte

	// Transport.
	L4Kind           string // "tcp","udp","icmp4","icmp6","" (fragment / unknown)
	SrcPort, DstPort uint16
	Seq, Ack         uint32
	Flags            uint8
	Wnd              uint16
	TCPHdrLen        int
	Opts             []TCPOption
	Payload          []byte
	ChecksumZero     bool // UDP: checksum field was 0

	ICMPType, ICMPCode uint8
	ICMPID, ICMPSeq    uint16
	ICMPBody           []byte // after the 4 byte header
}

func (p *Packet) errf(format string, a ...any) { p.Errs = append(p.Errs, fmt.Sprintf(format, a...)) }

// OK reports whether no well-formedness error was found.
func (p *Packet) OK() bool { return len(p.Errs) == 0 }

// Opt returns the data of the first option of that kind.
func (p *Packet) Opt(kind uint8) ([]byte, bool) {
	for _, o := range p.Opts {
		if o.Kind == kind {
			return o.Data, true
		}
	}
	return nil, false
}

// SegLen is the sequence space the TCP segment occupies.
func (p *Packet) SegLen() uint32 {
	n := uint32(len(p.Payload))
	if p.Flags&SYN != 0 {
		n++
	}
	if p.Flags&FIN != 0 {
		n++
	}
	return n
}

// DecodeOpts configures checksum expectations.
type DecodeOpts struct {
	// L4ChecksumOffload: the link advertises checksum offload, so transport
	// checksums are not expected to be filled in.
	L4ChecksumOffload bool
}

// DecodeEth decodes an Ethernet II frame.
func DecodeEth(frame []byte, o DecodeOpts) *Packet {
	p := &Packet{HasEth: true}
	if len(frame) < 14 {
		p.errf("ethernet frame of %d bytes", len(frame))
		return p
	}
	p.EthDst = append([]byte(nil), frame[0:6]...)
	p.EthSrc = append([]byte(nil), frame[6:12]...)
	p.EtherType = binary.BigEndian.Uint16(frame[12:])
	decodeL3(p, p.EtherType, frame[14:], o)
	return p
}

// DecodeNet decodes a network-layer packet of the given EtherType.
func DecodeNet(etherType uint16, pkt []byte, o DecodeOpts) *Packet {
	p := &Packet{EtherType: etherType}
	decodeL3(p, etherType, pkt, o)
	return p
}

func decodeL3(p *Packet, et uint16, b []byte, o DecodeOpts) {
	switch et {
	case EtherARP:
		p.L3 = "arp"
		if len(b) < 28 {
			p.errf("arp packet of %d bytes", len(b))
			return
		}
		if ht := binary.BigEndian.Uint16(b[0:]); ht != 1 {
			p.errf("arp hardware type %d", ht)
		}
		if pt := binary.BigEndian.Uint16(b[2:]); pt != 0x0800 {
			p.errf("arp protocol type %#x", pt)
		}
		if b[4] != 6 || b[5] != 4 {
			p.errf("arp sizes %d/%d", b[4], b[5])
		}
		p.ARPOp = binary.BigEndian.Uint16(b[6:])
		if p.ARPOp != 1 && p.ARPOp != 2 {
			p.errf("arp op %d", p.ARPOp)
		}
		p.ARPSHA = append([]byte(nil), b[8:14]...)
		p.ARPSPA = append([]byte(nil), b[14:18]...)
		p.ARPTHA = append([]byte(nil), b[18:24]...)
		p.ARPTPA = append([]byte(nil), b[24:28]...)
	case EtherIPv4:
		p.L3 = "ipv4"
		if len(b) < 20 {
			p.errf("ipv4 packet of %d bytes", len(b))
			return
		}
		if b[0]>>4 != 4 {
			p.errf("ipv4 version nibble %d", b[0]>>4)
		}
		ihl := int(b[0]&0xf) * 4
		if ihl < 20 || ihl > len(b) {
			p.errf("ipv4 IHL %d with %d bytes", ihl, len(b))
			return
		}
		p.IPHdrLen = ihl
		tl := int(binary.BigEndian.Uint16(b[2:]))
		p.IPTotal = tl
		if tl != len(b) {
			p.errf("ipv4 total length field %d, actual packet %d bytes", tl, len(b))
		}
		p.IPID = binary.BigEndian.Uint16(b[4:])
		fo := binary.BigEndian.Uint16(b[6:])
		if fo&0x8000 != 0 {
			p.errf("ipv4 reserved flag set")
		}
		p.DF = fo&0x4000 != 0
		p.MF = fo&0x2000 != 0
		p.FragOff = int(fo&0x1fff) * 8
		p.IsFrag = p.MF || p.FragOff != 0
		p.TTL = b[8]
		if p.TTL == 0 {
			p.errf("ipv4 TTL 0")
		}
		p.Proto = b[9]
		if s := Sum1071(b[:ihl], 0); s != 0xffff {
			p.errf("ipv4 header checksum does not verify (sum %#04x)", s)
		}
		p.Src = append([]byte(nil), b[12:16]...)
		p.Dst = append([]byte(nil), b[16:20]...)
		end := len(b)
		if tl >= ihl && tl < end {
			end = tl
		}
		p.L4 = b[ihl:end]
		if !p.IsFrag {
			decodeL4(p, o)
		}
	case EtherIPv6:
		p.L3 = "ipv6"
		if len(b) < 40 {
			p.errf("ipv6 packet of %d bytes", len(b))
			return
		}
		if b[0]>>4 != 6 {
			p.errf("ipv6 version nibble %d", b[0]>>4)
		}
		pl := int(binary.BigEndian.Uint16(b[4:]))
		p.IPTotal = 40 + pl
		if pl != len(b)-40 {
			p.errf("ipv6 payload length field %d, actual %d", pl, len(b)-40)
		}
		p.Proto = b[6]
		p.TTL = b[7]
		if p.TTL == 0 {
			p.errf("ipv6 hop limit 0")
		}
		p.IPHdrLen = 40
		p.Src = append([]byte(nil), b[8:24]...)
		p.Dst = append([]byte(nil), b[24:40]...)
		p.L4 = b[40:]
		if p.Proto == ProtoFrag6 {
			if len(p.L4) < 8 {
				p.errf("ipv6 fragment header truncated")
				return
			}
			p.IsFrag = true
			p.Proto = p.L4[0]
			fo := binary.BigEndian.Uint16(p.L4[2:])
			p.FragOff = int(fo>>3) * 8
			p.MF = fo&1 != 0
			p.L4 = p.L4[8:]
			return
		}
		decodeL4(p, o)
	default:
		p.errf("unknown ethertype %#04x", et)
	}
}

func decodeL4(p *Packet, o DecodeOpts) {
	b := p.L4
	switch {
	case p.Proto == ProtoTCP:
		p.L4Kind = "tcp"
		if len(b) < 20 {
			p.errf("tcp segment of %d bytes", len(b))
			return
		}
		p.SrcPort = binary.BigEndian.Uint16(b[0:])
		p.DstPort = binary.BigEndian.Uint16(b[2:])
		p.Seq = binary.BigEndian.Uint32(b[4:])
		p.Ack = binary.BigEndian.Uint32(b[8:])
		off := int(b[12]>>4) * 4
		if b[12]&0x0f != 0 {
			p.errf("tcp reserved bits %#x", b[12]&0xf)
		}
		if off < 20 || off > len(b) {
			p.errf("tcp data offset %d with %d bytes", off, len(b))
			return
		}
		p.TCPHdrLen = off
		p.Flags = b[13]
		p.Wnd = binary.BigEndian.Uint16(b[14:])
		if !o.L4ChecksumOffload {
			if s := Sum1071(b, PseudoSum(p.Src, p.Dst, ProtoTCP, len(b))); s != 0xffff {
				p.errf("tcp checksum does not verify (sum %#04x)", s)
			}
		}
		p.Payload = b[off:]
		p.parseTCPOptions(b[20:off])
		if p.Flags&ACK == 0 && p.Flags&(SYN|RST) == 0 {
			p.errf("tcp segment without ACK, SYN or RST (flags %#x)", p.Flags)
		}
	case p.Proto == ProtoUDP:
		p.L4Kind = "udp"
		if len(b) < 8 {
			p.errf("udp datagram of %d bytes", len(b))
			return
		}
		p.SrcPort = binary.BigEndian.Uint16(b[0:])
		p.DstPort = binary.BigEndian.Uint16(b[2:])
		ul := int(binary.BigEndian.Uint16(b[4:]))
		if ul != len(b) {
			p.errf("udp length field %d, actual %d", ul, len(b))
		}
		ck := binary.BigEndian.Uint16(b[6:])
		p.ChecksumZero = ck == 0
		if ck == 0 {
			if p.L3 == "ipv6" && !o.L4ChecksumOffload {
				p.errf("udp over ipv6 with zero checksum")
			}
		} else if !o.L4ChecksumOffload {
			if s := Sum1071(b, PseudoSum(p.Src, p.Dst, ProtoUDP, len(b))); s != 0xffff {
				p.errf("udp checksum does not verify (sum %#04x)", s)
			}
		}
		p.Payload = b[8:]
	case p.Proto == ProtoICMP && p.L3 == "ipv4":
		p.L4Kind = "icmp4"
		if len(b) < 4 {
			p.errf("icmp message of %d bytes", len(b))
			return
		}
		p.ICMPType, p.ICMPCode = b[0], b[1]
		if s := Sum1071(b, 0); s != 0xffff {
			p.errf("icmp checksum does not verify (sum %#04x)", s)
		}
		p.ICMPBody = b[4:]
		if p.ICMPType == 0 || p.ICMPType == 8 {
			if len(b) < 8 {
				p.errf("icmp echo of %d bytes", len(b))
				return
			}
			p.ICMPID = binary.BigEndian.Uint16(b[4:])
			p.ICMPSeq = binary.BigEndian.Uint16(b[6:])
			p.Payload = b[8:]
		}
	case p.Proto == ProtoICMPv6 && p.L3 == "ipv6":
		p.L4Kind = "icmp6"
		if len(b) < 4 {
			p.errf("icmpv6 message of %d bytes", len(b))
			return
		}
		p.ICMPType, p.ICMPCode = b[0], b[1]
		if s := Sum1071(b, PseudoSum(p.Src, p.Dst, ProtoICMPv6, len(b))); s != 0xffff {
			p.errf("icmpv6 checksum does not verify (sum %#04x)", s)
		}
		p.ICMPBody = b[4:]
		switch p.ICMPType {
		case 128, 129:
			if len(b) < 8 {
				p.errf("icmpv6 echo of %d bytes", len(b))
				return
			}
			p.ICMPID = binary.BigEndian.Uint16(b[4:])
			p.ICMPSeq = binary.BigEndian.Uint16(b[6:])
			p.Payload = b[8:]
		case 135, 136: // NS / NA: 4 reserved/flags + 16 target + options
			if len(b) < 24 {
				p.errf("NDP message of %d bytes", len(b))
				return
			}
			if p.TTL != 255 {
				p.errf("NDP message with hop limit %d", p.TTL)
			}
			opts := b[24:]
			for len(opts) > 0 {
				if len(opts) < 2 || opts[1] == 0 || int(opts[1])*8 > len(opts) {
					p.errf("NDP option malformed")
					break
				}
				opts = opts[int(opts[1])*8:]
			}
		}
	default:
		p.L4Kind = ""
	}
}

func (p *Packet) parseTCPOptions(b []byte) {
	i := 0
	for i < len(b) {
		k := b[i]
		switch k {
		case 0: // EOL: the rest must be padding
			for _, x := range b[i:] {
				if x != 0 {
					p.errf("tcp options: non-zero byte after EOL")
					break
				}
			}
			return
		case 1:
			p.Opts = append(p.Opts, TCPOption{Kind: 1})
			i++
		default:
			if i+1 >= len(b) {
				p.errf("tcp option kind %d truncated", k)
				return
			}
			l := int(b[i+1])
			if l < 2 || i+l > len(b) {
				p.errf("tcp option kind %d length %d overruns header", k, l)
				return
			}
			want := map[uint8]int{2: 4, 3: 3, 4: 2, 8: 10}
			if w, ok := want[k]; ok && l != w {
				p.errf("tcp option kind %d has length %d, want %d", k, l, w)
			}
			if k == 5 && (l < 10 || (l-2)%8 != 0 || l > 34) {
				p.errf("tcp SACK option length %d", l)
			}
			if (k == 2 || k == 3 || k == 4) && p.Flags&SYN == 0 {
				p.errf("tcp option kind %d on a non-SYN segment", k)
			}
			p.Opts = append(p.Opts, TCPOption{Kind: k, Data: append([]byte(nil), b[i+2:i+l]...)})
			i += l
		}
	}
}

// SACKBlocks returns the SACK blocks carried by the segment.
func (p *Packet) SACKBlocks() [][2]uint32 {
	d, ok := p.Opt(5)
	if !ok {
		return nil
	}
	var out [][2]uint32
	for i := 0; i+8 <= len(d); i += 8 {
		out = append(out, [2]uint32{binary.BigEndian.Uint32(d[i:]), binary.BigEndian.Uint32(d[i+4:])})
	}
	return out
}

// FlagString renders TCP flags.
func FlagString(f uint8) string {
	s := ""
	for i, n := range []string{"F", "S", "R", "P", "A", "U"} {
		if f&(1<<uint(i)) != 0 {
			s += n
		}
	}
	if s == "" {
		s = "-"
	}
	return s
}

// String renders a one-line summary for traces.
func (p *Packet) String() string {
	switch {
	case p.L3 == "arp":
		return fmt.Sprintf("ARP op=%d spa=%v tpa=%v sha=%x tha=%x", p.ARPOp, p.ARPSPA, p.ARPTPA, p.ARPSHA, p.ARPTHA)
	case p.L4Kind == "tcp":
		return fmt.Sprintf("TCP %v:%d>%v:%d %s seq=%d ack=%d wnd=%d len=%d opts=%d", p.Src, p.SrcPort, p.Dst, p.DstPort, FlagString(p.Flags), p.Seq, p.Ack, p.Wnd, len(p.Payload), len(p.Opts))
	case p.L4Kind == "udp":
		return fmt.Sprintf("UDP %v:%d>%v:%d len=%d", p.Src, p.SrcPort, p.Dst, p.DstPort, len(p.Payload))
	case p.L4Kind == "icmp4" || p.L4Kind == "icmp6":
		return fmt.Sprintf("%s %v>%v type=%d code=%d id=%d seq=%d len=%d", p.L4Kind, p.Src, p.Dst, p.ICMPType, p.ICMPCode, p.ICMPID, p.ICMPSeq, len(p.Payload))
	}
	return fmt.Sprintf("%s %v>%v proto=%d frag=%v off=%d len=%d errs=%v", p.L3, p.Src, p.Dst, p.Proto, p.IsFrag, p.FragOff, len(p.L4), p.Errs)
}
